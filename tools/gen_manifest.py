#!/venv/bin/python
"""Regenerates MANIFEST.json from the table below (kept in one place so it stays valid)."""
import json
import os

ROOT = os.path.dirname(os.path.dirname(os.path.abspath(__file__)))

BASELINE_OFF = ("cd /repo && /venv/bin/python -m pytest -ra -q -p no:cacheprovider --timeout=900 "
                "--continue-on-collection-errors")

# id -> (technique, engine, level text, level note, design section)
CHECKS = {
    "C01": ("property-based testing (Hypothesis): generated (type, value, options, entry point) against a type-directed conformance predicate with independent constraint semantics; plus a coverage-guided atheris/libFuzzer tier on the text/bytes converters with the same oracle inside the target",
            "hypothesis",
            "Exploration: thousands of generated type declarations (origins x constraints x nesting x combinators) pushed through 7 "
            "public entry points with type-directed and hostile values under the non-waiving options; every accepted result is "
            "judged by an independent recursive conformance predicate.",
            "Trusted: vf/tspec.py:conforms and vf/constraints.py (documented constraint semantics); Python isinstance.", "3/C01"),
    "C02": ("property-based testing (Hypothesis), boundary-directed: well-typed values on/next to every declared bound against independent documented constraint semantics; exhaustive int range grid; isinstance agreement",
            "hypothesis",
            "Exploration: generated legal constraint sets over 13 origins with values of exactly the source type concentrated on every "
            "boundary; verdict, result equality and isinstance compared with an oracle written from the constraint documentation; "
            "the int range grid ((gt|ge) x (lt|le) x bounds in [-3,3] x ints in [-6,6]) is enumerated completely on every run.",
            "Trusted: vf/constraints.py (documented senses; Fraction arithmetic, fixed-point digit strings, re with \\Z); unspecified zones are silent and counted.", "3/C02"),
    "C03": ("round-trip property-based testing (Hypothesis): parse(parse(x)) == parse(x) over generated types incl. lax constraints, unions and data classes; strict-form check of lax outputs against independent constraint semantics",
            "hypothesis",
            "Exploration: generated types (constrained incl. lax, nested generics, logical combinations, data classes) x type-directed and hostile "
            "inputs x conversion options x 6 entry points; every accepted result is parsed again and compared; a dedicated lax campaign aims "
            "inputs beyond every lax bound (carries, non-multiples of both signs, over-long values, duplicates) and checks the strict form on exact domains.",
            "Trusted: vf/oracle.py:equal (True/1 and False/0 count as equal), vf/constraints.py for the strict form; float outputs judged by idempotence only.", "3/C03"),
    "C04": ("property-based testing (Hypothesis) with hostile values; oracle = exception class + deterministic line-event budget (sys.monitoring) + body-entered flag; plus a coverage-guided atheris/libFuzzer tier (string/bytes inputs decoded into typed fields, oracle inside the target)",
            "hypothesis",
            "Exploration: hostile Python values against generated constrained/logical types through field, parameter, return and "
            "direct-call entries under arbitrary options; any non-ParseError exception or exhausted line budget is a violation, "
            "bucketed by (exception type, innermost utype frame).",
            "Trusted: sys.monitoring LINE accounting as termination proxy (budget 2e5+2e3*size, re-run at 50x before calling it a hang).", "3/C04"),
    "C06": ("differential property-based testing (Hypothesis): every generated declaration built twice (data_first_search on/off), same input through both",
            "hypothesis",
            "Exploration: generated data classes over the Field/Options product (Schema, DataClass, @dataclass; one in three inherits from a generated parent and redeclares fields) and decorated functions (five parameter kinds, aliases, "
            "case-insensitive names, **kwargs) with inputs using names, aliases, case variants, duplicates, extra keys and names only the parent's declaration accepted; outcomes of the two strategies compared "
            "(equal values; same failure kind via the collected error sets).",
            "Trusted: vf/oracle.py equal/plain; the notion of 'same kind' = (exception class, item) membership in the other strategy's collected set.", "3/C06"),
    "C09": ("property-based testing (Hypothesis): combinator trees in drawn argument orders against truth-table semantics computed from the standalone verdicts of the arguments; permutation metamorphic relation for xor; construction algebra",
            "hypothesis",
            "Exploration: unions, exclusive-ors, conjunctions and negations over 30 leaf types (builtins, constrained, generics, literals, enums, "
            "data classes, nested combinators) built by operators, constructors and typing.Union, with inputs aimed at each argument; the outcome "
            "is compared with the semantics stated in the property, every xor is re-run under all permutations, and the algebra laws are checked on every tree.",
            "Trusted: standalone verdicts via utype.type_transform (arguments are judged by C01/C02), vf/tspec.py:conforms, vf/oracle.py:equal.", "3/C09"),
    "C10": ("differential property-based testing (Hypothesis): fail-fast vs collect_errors run of the same declaration and input; reported item set compared with the independently computed set of individually failing items; max_errors cap",
            "hypothesis",
            "Exploration: generated data classes and functions over 14 field types (scalars, constrained, containers, unions, xor, nested data classes) with any "
            "subset of the top-level items invalid (bad values, bad nested elements, all-branches-failing unions, missing required fields, exceeding keys) and "
            "max_errors in {None,1,2,3}; verdicts, values, the reported item set, duplicates and the cap are compared.",
            "Trusted: per-item verdict via utype.type_transform on the field type alone (conversion judged by C01/C02); .item of the collected errors.", "3/C10"),
    "C11": ("metamorphic property-based testing (Hypothesis): exclude == strict parse of the input minus the independently established offenders; preserve == that plus the offenders reinserted unchanged; over containers, data-class fields, typed addition, *args/**kwargs and all policy triples",
            "hypothesis",
            "Exploration: generated List/Set/FrozenSet/Tuple[T,...]/Dict[K,V] types (one nesting level), data classes with per-field on_error, "
            "typed addition, and functions with *args/**kwargs, fed element lists with any subset offending under the 27 policy triples; the result "
            "is compared with the metamorphic expectation built from the standalone strict parse of every element.",
            "Trusted: element-level verdicts via utype.type_transform (judged by C01/C02); vf/oracle.py:equal (sets compared as sets).", "3/C11"),
    "C12": ("differential/metamorphic property-based testing (Hypothesis + exhaustive pair table): the same (source, target) under the 4 flag combinations; subset+equality relation and independent no-loss / group predicates; the case strategy is also driven by atheris/libFuzzer (coverage-guided mutation of the Hypothesis choice sequence)",
            "hypothesis",
            "Exploration: a fixed table of ~170 representative sources x 29 targets x 2 entries x 4 flag sets enumerated completely on every run, "
            "plus generated hostile and type-directed sources; checks that flags only restrict (equal value, same type) and that every accepted "
            "conversion under no_data_loss / no_explicit_cast keeps the documented promises.",
            "Trusted: vf/checks/c12.py predicates (Fraction arithmetic, strict UTF-8 decoding, ISO date/time parsing, group table from the docs); silent zones listed in ASSUMPTIONS.", "3/C12"),
    "C14": ("round-trip property-based testing (Hypothesis): generated data classes over the JSON-faithful domain and instances of exactly those types through utype.JSONEncoder, a strict JSON reader and Cls.__from__",
            "hypothesis",
            "Exploration: generated (nested) data classes over 12 scalar types, 3 enums, list/set/tuple/dict/Optional/nested classes, with instance values aimed at "
            "the awkward corners (negative/zero/odd UTC offsets, years < 1000, microsecond and negative durations, -0.0, 1e+-300, 2**53+-1, 15-digit Decimals, "
            "millisecond times, empty containers); encode, require standard JSON, parse back, compare.",
            "Trusted: Python json (reader with parse_constant refusing NaN/Infinity), vf/oracle.py:equal.", "3/C14"),
    "C18": ("property-based testing (Hypothesis) plus an exhaustive grid: recursive declarations x link positions x chain depth x max_depth against the exact depth biconditional; deterministic work counter (registered leaf converter) against a polynomial bound",
            "hypothesis",
            "Exploration: 8 recursion shapes (direct, Optional, List, Dict, Tuple, Union either way, mutual) x every link position (list index 0/1/2, key ''/'k'/'0') x D in 1..6 x "
            "max_depth in {None,1..4}, cyclic inputs, and cost families scaled in depth/breadth with a valid or an invalid bottom leaf are enumerated completely on every run; "
            "Hypothesis adds random per-level positions, siblings, bases. Work is counted by a converter registered through the public API, never by a clock.",
            "Trusted: the nesting-depth definition taken from the documentation example; the bound 8*L**2 as the meaning of 'polynomial' on the generated families.", "3/C18"),
    "C16": ("model-based stateful PBT (Hypothesis RuleBasedStateMachine) of register/use histories against a cache-free reference model",
            "hypothesis",
            "Exploration: random histories of registrations and conversions over a 6-class hierarchy on three registries "
            "(fresh TypeRegistry, the real transformer registry, the real encoder registry), every use compared with the "
            "reference model; finds ordering/caching defects that need a specific interleaving of register and use.",
            "Trusted: the reference model in vf/checks/c16.py (max priority, most recent wins); observation only through "
            "resolve/type_transform/Rule/Schema/json.dumps.", "3/C16"),
}

CHECKS["C19"] = ("property-based testing (Hypothesis): deep before/after snapshots of the caller's input (types, contents, container identity); aliasing and mutation probes on mutable defaults (exhaustive product of forms x bases x nested defaults); generated parse histories with the probe replayed on a fresh re-declaration / fresh interpreter",
            "hypothesis",
            "Exploration: (a) generated types/data classes/functions over all entry points with inputs holding nested mutable containers under exclude/preserve, lax and "
            "cast_keyword_str options, deep snapshot compared after success and failure; (b) 7 declaration forms x 3 bases x 13 nested mutable defaults enumerated completely: "
            "no shared object, no propagation of in-place mutation to later results or to the declared default; (c) generated histories of up to 8 parses on a shared program "
            "with forward references, unions and a decorated function, probe outcome compared with a fresh re-declaration.",
            "Trusted: vf/checks/c19.py:snapshot; vf/oracle.py:equal/plain; aliasing between result and input is by design not a failure.", "3/C19")

CHECKS["C17"] = ("differential property-based testing (Hypothesis): generated systems of mutually referencing classes/functions rendered to source with forward references (per-reference spelling, definition order, future annotations, local scope, first-use order) against the same system rendered with direct references (unrolled)",
            "hypothesis",
            "Exploration: programs of 1-3 data classes, an optional constrained type and an optional decorated function over 8 reference wrappers (plain, Optional, List, Dict, Union, "
            "Tuple, nested twice) x 4 spellings x definition order x future-annotations x local scope, exec-ed in a fresh module; inputs valid/invalid at every level, used in a "
            "drawn first-use order and compared call by call with the direct-reference rendering; plus the same class name declared in two modules.",
            "Trusted: the renderer of the direct-reference program (vf/checks/c17.py:render_ref); vf/oracle.py:plain; (exception class, item) as error kind.", "3/C17")

CHECKS["C13"] = ("property-based testing (Hypothesis) with an independent validator: generated JSON-expressible types / data classes x modes x views; schema validity and output validation by the jsonschema package; properties/required/additionalProperties established by behavioural probes of the parser",
            "hypothesis",
            "Exploration: generated types (constrained, containers, unions, xor, literals, enums) and data classes (aliases, required, conforming defaults, no_input/no_output, per-field mode, "
            "addition, nested classes) in modes {None,r,w,a} given to the class or to the generator; the document is checked with Draft202012Validator.check_schema, every accepted input's "
            "JSON-encoded output is validated against the output schema, and the input schema's structure is compared with what the parser does on probe inputs.",
            "Trusted: jsonschema 4.26 (Draft 2020-12), Python json, one known-valid probe value per field type; silent zones in ASSUMPTIONS.", "3/C13")

CHECKS["C15"] = ("grammar-based property-based testing (Hypothesis) with an independent validator: schemas generated from the supported keyword fragment, instances valid-by-construction / mutated / arbitrary; build must not raise, strict-mode outputs validated against the source schema by the jsonschema package; the case strategy is also driven by atheris/libFuzzer (coverage-guided mutation of the Hypothesis choice sequence)",
            "hypothesis",
            "Exploration: JSON Schemas from a grammar over type/format/numeric/length/pattern/enum/const/items/prefixItems/properties/required/additionalProperties/"
            "dependentRequired/min-maxProperties/anyOf/oneOf/allOf (with and without type), nested to depth 2-3, with hostile property names; JsonSchemaParser must build a type, "
            "and whatever that type returns under no_explicit_cast+no_data_loss is validated against the source schema. Root causes are keyed by the first node on the failing "
            "path whose keywords the translator skips.",
            "Trusted: jsonschema 4.26 (Draft 2020-12) as the meaning of the schema; utype.JSONEncoder for publishing outputs.", "3/C15")

CHECKS["C07"] = ("model-based property-based testing (Hypothesis) over generated operation histories: every public mutator of dict-based and attribute-based data class instances, reference model of documented refusals, invariants checked after every step",
            "hypothesis",
            "Exploration: histories of up to 12 operations (setattr, delattr, item set/delete, update (mapping/keywords), pop, popitem, setdefault, clear, |=, copy + mutation of the copy) "
            "with valid / convertible / invalid / wrong-kind arguments and attribute names, aliases, case variants and unknown keys, on a curated class family (required, optional, "
            "constrained, aliased, immutable, case-insensitive, no_output, on_error=exclude, constrained list, dependent @property) for Schema, DataClass and @dataclass; after every "
            "step: conformance of every present value, required present, immutable unchanged, key view == attribute view, dependent property recomputed, failed single-key operations "
            "leave no trace, documented refusals happen, the original is untouched by its copy.",
            "Trusted: the reference model in vf/checks/c07.py (refusal rules from docs/en/references/field.md, options.md); element validity via utype.type_transform on the field type alone.", "3/C07")

CHECKS["C08"] = ("differential property-based testing (Hypothesis): generated signatures (source exec-ed) x contexts x wrapper kinds x calls built from a logical parameter assignment and re-spelled; the recording body of the decorated function is compared with the assignment (each value replaced by its standalone parse); generator scripts against the undecorated protocol",
            "hypothesis",
            "Exploration: signatures over the five parameter kinds with annotations, plain/Param/default_factory defaults, alias_from and case-insensitive names, *args: T, **kwargs: T and a "
            "return annotation, as function / instance method / classmethod / staticmethod, sync / coroutine / generator / async generator (lazy and eager); every parameter valid, convertible "
            "or invalid, passed by position, by name, by alias or by case variant; Python's own bind succeeds on the canonical spelling. Compared: what the body received, that the body "
            "does not run after an invalid parameter, the converted return value, and for generators the yielded / sent / returned values of a next/send script.",
            "Trusted: inspect.Signature.bind as the precondition; utype.type_transform on a single annotation as the meaning of 'converted'; coroutines driven with send(None).", "3/C08")

CHECKS["C05"] = ("model-based property-based testing (Hypothesis): generated declarations over the Field x Options product and input mappings over names / aliases / case variants / extra keys, against an independent reference model of the documented field contract",
            "hypothesis",
            "Exploration: generated data classes (Schema, DataClass, @dataclass) with required (incl. mode strings), default / default_factory / defer_default, alias / alias generator / alias_from, "
            "case-insensitivity, no_input / no_output (incl. mode strings), mode / readonly / writeonly, dependencies, on_error, and class options mode, addition (None/True/False/type), "
            "ignore_required, no_default, defer_default, ignore_alias_conflicts, min/max_params, invalid_values; the verdict, the key view, every attribute and membership are compared "
            "with the model; on failure the raised error must be one the model finds.",
            "Trusted: the reference model vf/checks/c05.py:model (written from docs/en/references/field.md, options.md, guide/cls.md); single-value conversion via utype.type_transform.", "3/C05")

CHECKS["C20"] = ("schedule exploration driven by generated inputs: a harness-owned deterministic scheduler (sys.settrace line events, one thread runs at a time) replays preemption schedules over first-use workloads; 1-preemption schedules enumerated exhaustively, 2-3-preemption schedules drawn by Hypothesis; oracle = every call's run-alone outcome",
            "hypothesis",
            "Exploration: for the workloads W1 (first calls on classes with unresolved, constrained and nested references) and W2 (first calls on decorated functions with forward-referenced "
            "parameters, *args, **kwargs) every single preemption point (about 9000 source-line positions, both start orders) is replayed on a fresh declaration; W3 (cold registry lookups) and "
            "W4 (subclass and base first used together) plus 2- and 3-preemption schedules with up to 3 threads are sampled. Every call must return its run-alone outcome; internal errors are violations.",
            "Trusted: the scheduler in vf/checks/c20.py (line granularity under the GIL; a thread blocked on a real lock is released after 60 ms without progress).", "3/C20")

# small risky dimensions that are enumerated completely on every run, besides the random campaign
GRIDS = {
    "C01": "digit-count constraints x every spelling of a number, and contains-only rules inside unions",
    "C02": "the int range grid and const/enum on rules without a source type",
    "C03": "sized containers x colliding members, lax digit constraints x carrying numbers, lax unique_items x duplicate kinds, unions (plain and constrained arguments) x re-interpretable inputs x every spelling of the flags",
    "C04": "every builtin target x extreme scalars, and awkward-but-legal declarations x inputs aimed at them",
    "C06": "one field reachable under two names: declared spelling x where case-insensitivity is declared x spelling and order of the two keys x conflicting / equal-but-distinct values",
    "C09": "unions that only accept in their lenient stage, followed by other arguments; data classes restricted by options of their own beside every partner",
    "C12": "the (source, target) pair table",
    "C15": "every constraint keyword and keyword combination x every subschema position x every combinator, every instance kind x every pair of scalar types in anyOf / oneOf",
    "C16": "all short register/use histories of two shapes",
    "C17": "same-named classes in two modules x annotation styles x orders, subclasses of classes with pending references, local declarations (result-only functions and whole-string generator annotations included), shared reference names, combinators over two later classes given mappings and instances",
    "C18": "the shape x position x depth x max_depth grid, cyclic and DAG-shaped inputs",
    "C19": "mutable-default forms (named tuples and keeping factories included), text inputs into unparametrised slots, one function declared twice under every ordered pair of option sets, and parse orders across fresh interpreters",
    "C20": "all one-preemption schedules (first calls, and two threads decorating one function) and the two-preemption schedules around the serialisation gate",
}

NOT_YET = "check not built yet in this round (planned, see DESIGN.md section 3)"


def main():
    props = [json.loads(l) for l in open(os.path.join(ROOT, "properties.jsonl"))]
    checks = []
    na = []
    for p in props:
        pid = p["id"]
        if pid in CHECKS and os.path.exists(os.path.join(ROOT, "vf", "checks", pid.lower() + ".py")):
            tech, engine, text, note, ref = CHECKS[pid]
            if pid in GRIDS:
                tech += "; plus exhaustive enumeration on every run (seed independent) of " + GRIDS[pid]
            checks.append({
                "property_id": pid,
                "quick_cmd": f"/venv/bin/python -B -m vf {pid} --tier quick",
                "thorough_cmd": f"/venv/bin/python -B -m vf {pid} --tier thorough",
                "evidence_file": f"/verif/evidence/{pid}.json",
                "replay_cmd_template": f"/venv/bin/python -B -m vf {pid} --replay {{path}}",
                "engine": engine,
                "level_claimed": {"category": "exploration", "text": text, "design_ref": ref},
                "level_note": note,
                "technique": tech,
            })
        else:
            na.append({"property_id": pid, "reason": NOT_YET})
    man = {
        "version": 1,
        "setup_cmd": "sh setup.sh",
        "hooks": {
            "guard": "UTYPE_VERIF",
            "enable": "none needed: the checks import /repo's working tree directly (pure Python) and observe through the public API, sys.monitoring and sys.settrace",
            "baseline_off_cmd": BASELINE_OFF,
            "source_commits": [],
            "add_only": True,
        },
        "engines": [
            {"name": "vf", "path": "/verif/vf", "serves_properties": [c["property_id"] for c in checks],
             "kind_free_text": "property-based testing harness on Hypothesis: generated specs, explicit oracles, collect-and-bucket, own shrinker, replay files"},
        ],
        "checks": checks,
        "not_applicable": na,
        "notes": "All checks: cwd=/verif, read VERIF_SEED/VERIF_TIER, exit 0/1/2 (2 = harness error, never a verdict). "
                 "known_findings.json lists genuine defects (known/fixed).",
    }
    with open(os.path.join(ROOT, "MANIFEST.json"), "w") as f:
        json.dump(man, f, indent=1)
    print(f"MANIFEST.json: {len(checks)} checks, {len(na)} not_applicable")


if __name__ == "__main__":
    main()
