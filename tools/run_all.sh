#!/bin/sh
# run every registered quick (or $1=thorough) check, 4 at a time; print one line per check
cd "$(dirname "$0")/.."
TIER=${1:-quick}
ls vf/checks/c*.py | sed 's/.*\/c\([0-9]*\)\.py/C\1/' | xargs -P 4 -I{} sh -c "/venv/bin/python -B -m vf {} --tier $TIER > .work/{}.$TIER.out 2>&1; echo \"{} rc=\$? \$(grep -c VIOLATION .work/{}.$TIER.out) violations; \$(tail -1 .work/{}.$TIER.out)\""
