#!/venv/bin/python
"""Verify sub-agent mutants and file them under /verif/seeded/<PID>-<X>/.

For each /tmp/seed-<PID>/<X>/ (patch.diff, demo.py, meta.json): in a scratch worktree of /repo HEAD
 - demo passes on the clean tree,
 - patch applies, the 115 tests still pass, demo fails with the patch.
usage: seedcheck.py [PID ...]
"""
import glob
import json
import os
import shutil
import subprocess
import sys

ROOT = os.path.dirname(os.path.dirname(os.path.abspath(__file__)))
PY = "/venv/bin/python"


def sh(cmd, cwd=None, env=None, timeout=900):
    p = subprocess.run(cmd, shell=True, cwd=cwd, env=env, capture_output=True, text=True, timeout=timeout)
    return p.returncode, (p.stdout + p.stderr)


def main():
    pids = sys.argv[1:] or [os.path.basename(d)[5:] for d in sorted(glob.glob("/tmp/seed-C*"))]
    wt = "/tmp/vf-seedcheck-wt"
    sh(f"git -C /repo worktree remove --force {wt}")
    rc, out = sh(f"git -C /repo worktree add --detach {wt} HEAD")
    assert rc == 0, out
    env = dict(os.environ, PYTHONPATH=wt, PYTHONDONTWRITEBYTECODE="1")
    results = {}
    try:
        for pid in pids:
            for x in sorted(os.path.basename(d) for d in glob.glob(f"/tmp/seed-{pid}/*")):
                src = f"/tmp/seed-{pid}/{x}"
                if not os.path.exists(f"{src}/patch.diff"):
                    continue
                name = f"{pid}-{x}"
                r = {}
                sh("git checkout -- . && git clean -fdq", cwd=wt)
                rc, out = sh(f"{PY} {src}/demo.py", cwd=wt, env=env, timeout=300)
                r["demo_clean_rc"] = rc
                rc, out = sh(f"git apply {src}/patch.diff", cwd=wt)
                if rc != 0:
                    rc, out = sh(f"git apply -3 {src}/patch.diff", cwd=wt)
                r["applies"] = rc == 0
                if rc == 0:
                    rc, out = sh(f"{PY} -m pytest -q -p no:cacheprovider tests 2>&1 | tail -1", cwd=wt, env=env)
                    r["tests"] = out.strip()
                    rc, out = sh(f"{PY} {src}/demo.py", cwd=wt, env=env, timeout=300)
                    r["demo_patched_rc"] = rc
                    r["demo_patched_tail"] = out.strip()[-400:]
                    sh(f"git diff > /tmp/vf-seed-{name}.diff", cwd=wt)
                ok = r.get("applies") and "115 passed" in r.get("tests", "") and r.get("demo_patched_rc") == 1 and r["demo_clean_rc"] == 0
                r["confirmed"] = bool(ok)
                results[name] = r
                print(name, "CONFIRMED" if ok else "REJECTED", {k: v for k, v in r.items() if k != "demo_patched_tail"})
                if ok:
                    dst = os.path.join(ROOT, "seeded", name)
                    os.makedirs(dst, exist_ok=True)
                    shutil.copy(f"/tmp/vf-seed-{name}.diff", f"{dst}/patch.diff")  # re-diffed against current HEAD
                    shutil.copy(f"{src}/demo.py", f"{dst}/demo.py")
                    meta = json.load(open(f"{src}/meta.json"))
                    meta["property"] = pid
                    meta["confirmed"] = {
                        "base_commit": sh("git -C /repo rev-parse --short HEAD")[1].strip(),
                        "ran": ["demo.py on clean tree -> exit 0", "git apply patch.diff", "pytest tests -> " + r["tests"],
                                "demo.py on patched tree -> exit 1"],
                    }
                    json.dump(meta, open(f"{dst}/meta.json", "w"), indent=1)
    finally:
        sh(f"git -C /repo worktree remove --force {wt}")
        sh("rm -f /tmp/vf-seed-*.diff")
    json.dump(results, open(os.path.join(ROOT, ".work", "seedcheck.json"), "w"), indent=1)


main()
