#!/venv/bin/python
"""mkwitness.py PID NAME CASE_JSON  -> replays/PID/w-NAME.json  (sig/detail taken from judge on VERIF_REPO tree)"""
import json, os, sys
ROOT = os.path.dirname(os.path.dirname(os.path.abspath(__file__)))
sys.path.insert(0, ROOT)
from vf import core
core.setup_paths()
pid, name, case = sys.argv[1], sys.argv[2], json.loads(sys.argv[3])
mod = core.load_check(pid)
fails = mod.judge(case)
print("judge on", core.REPO, "->", [s for s, _ in fails])
if fails:
    path = os.path.join(ROOT, "replays", pid, f"w-{name}.json")
    os.makedirs(os.path.dirname(path), exist_ok=True)
    json.dump({"property": pid, "sig": fails[0][0], "case": case, "detail": fails[0][1], "utype_commit": core.utype_commit()},
              open(path, "w"), indent=1, default=repr)
    print("wrote", path)
