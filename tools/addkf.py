#!/venv/bin/python
"""addkf.py ID PROPERTY STATUS COMMIT SIG_PREFIX WITNESS WHAT  -> append to known_findings.json"""
import json, os, sys
ROOT = os.path.dirname(os.path.dirname(os.path.abspath(__file__)))
p = os.path.join(ROOT, "known_findings.json")
d = json.load(open(p))
kid, prop, status, commit, sig, wit, what = sys.argv[1:8]
assert status in ("known", "fixed")
assert not any(e["id"] == kid for e in d["findings"]), "duplicate id"
if wit and not os.path.exists(os.path.join(ROOT, wit)):
    sys.exit("missing witness " + wit)
if status == "fixed":
    what = f"fixed: property={prop} {commit} {what}"
d["findings"].append({"id": kid, "property": prop, "status": status, "commit": commit or None,
                      "match": {"sig_prefix": sig}, "witness": wit or None, "what": what})
json.dump(d, open(p, "w"), indent=1)
print("added", kid)
