#!/venv/bin/python
"""Run checks against the seeded mutants (scratch worktree + VERIF_REPO; /repo itself is untouched).

usage: run_seeded.py [--all-checks] [--tier quick] [NAME ...]      NAME like C01-A (default: all)
Result table -> seeded/RESULTS.json  (name -> {check: 'caught'|'missed'|'error'})
"""
import concurrent.futures as cf
import glob
import json
import os
import subprocess
import sys

ROOT = os.path.dirname(os.path.dirname(os.path.abspath(__file__)))
PY = "/venv/bin/python"


def sh(cmd, cwd=None, env=None, timeout=3600):
    p = subprocess.run(cmd, shell=True, cwd=cwd, env=env, capture_output=True, text=True, timeout=timeout)
    return p.returncode, (p.stdout + p.stderr)


def run_one(name, checks, tier):
    wt = f"/tmp/vf-seeded-{name}-{os.environ.get('VERIF_SEED', '1')}"
    sh(f"git -C /repo worktree remove --force {wt}")
    rc, out = sh(f"git -C /repo worktree add --detach {wt} HEAD")
    if rc != 0:
        return name, {"error": out[-300:]}
    res = {}
    try:
        rc, out = sh(f"git apply {ROOT}/seeded/{name}/patch.diff", cwd=wt)
        if rc != 0:
            rc, out = sh(f"git apply -3 {ROOT}/seeded/{name}/patch.diff", cwd=wt)
        if rc != 0:
            return name, {"error": "patch does not apply: " + out[-300:]}
        for pid in checks:
            env = dict(os.environ, VERIF_REPO=wt, VERIF_EVIDENCE_DIR=f"/tmp/vf-seeded-ev-{name}-{os.environ.get('VERIF_SEED', '1')}", VERIF_REPLAY_DIR=f"/tmp/vf-seeded-rp-{name}-{os.environ.get('VERIF_SEED', '1')}")
            rc, out = sh(f"{PY} -B -m vf {pid} --tier {tier}", cwd=ROOT, env=env)
            viol = [l.split("#")[-1].strip() for l in out.splitlines() if l.startswith("VIOLATION")]
            res[pid] = {"rc": rc, "verdict": {0: "missed", 1: "caught"}.get(rc, "error"), "sigs": viol[:6]}
            if rc not in (0, 1):
                res[pid]["tail"] = out[-600:]
    finally:
        sh(f"git -C /repo worktree remove --force {wt}")
        sh(f"rm -rf /tmp/vf-seeded-ev-{name}-{os.environ.get('VERIF_SEED', '1')} /tmp/vf-seeded-rp-{name}-{os.environ.get('VERIF_SEED', '1')}")
    return name, res


def main():
    args = sys.argv[1:]
    all_checks = "--all-checks" in args
    tier = "quick"
    if "--tier" in args:
        tier = args[args.index("--tier") + 1]
        args.remove("--tier"); args.remove(tier)
    only = None
    if "--checks" in args:
        only = args[args.index("--checks") + 1].split(",")
        args.remove("--checks"); args.remove(",".join(only))
    names = [a for a in args if not a.startswith("--")]
    if not names:
        names = sorted(os.path.basename(d) for d in glob.glob(os.path.join(ROOT, "seeded", "C*-*")))
    man = json.load(open(os.path.join(ROOT, "MANIFEST.json")))
    registered = [c["property_id"] for c in man["checks"]]
    jobs = []
    for n in names:
        pid = n.split("-")[0]
        checks = registered if all_checks else [p for p in (only or [pid]) if p in registered]
        if checks:
            jobs.append((n, checks))
    path = os.path.join(ROOT, "seeded", "RESULTS.json")
    table = json.load(open(path)) if os.path.exists(path) else {}
    with cf.ThreadPoolExecutor(max_workers=4) as ex:
        for name, res in ex.map(lambda j: run_one(j[0], j[1], tier), jobs):
            table.setdefault(name, {}).update(res)
            print(name, {k: (v.get("verdict") if isinstance(v, dict) else v) for k, v in res.items()},
                  [v.get("sigs") for v in res.values() if isinstance(v, dict) and v.get("sigs")][:1])
    if "--no-save" not in sys.argv:
        json.dump(table, open(path, "w"), indent=1, sort_keys=True)


main()
