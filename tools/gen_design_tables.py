#!/venv/bin/python
"""Fills the @@FINDINGS@@ / @@SEEDED@@ blocks of DESIGN.md from known_findings.json and seeded/RESULTS.json
(the blocks are delimited by HTML comments so the tool can be re-run)."""
import glob
import json
import os
import re

ROOT = os.path.dirname(os.path.dirname(os.path.abspath(__file__)))


def findings():
    d = json.load(open(os.path.join(ROOT, "known_findings.json")))
    rows = ["| id | status | commit | what |", "|----|--------|--------|------|"]
    for e in d["findings"]:
        what = e["what"]
        what = re.sub(r"^fixed: property=C\d+ \w+ ", "", what)
        rows.append(f"| {e['id']} | {e['status']} | {e.get('commit') or '-'} | {what.replace('|', '/')} |")
    n_fixed = sum(1 for e in d["findings"] if e["status"] == "fixed")
    n_known = sum(1 for e in d["findings"] if e["status"] == "known")
    return f"{n_fixed} fixed, {n_known} known.\n\n" + "\n".join(rows)


def seeded():
    res = {}
    p = os.path.join(ROOT, "seeded", "RESULTS.json")
    if os.path.exists(p):
        res = json.load(open(p))
    rows = ["| mutant | needs (short) | own check | other checks | first signatures |", "|--------|---------------|-----------|--------------|------------------|"]
    for dname in sorted(glob.glob(os.path.join(ROOT, "seeded", "C*-*"))):
        name = os.path.basename(dname)
        meta = json.load(open(os.path.join(dname, "meta.json")))
        own = name.split("-")[0]
        r = res.get(name, {})
        ownv = r.get(own, {}).get("verdict", "-") if isinstance(r.get(own), dict) else "-"
        others = ", ".join(f"{k}: {v.get('verdict')}" for k, v in sorted(r.items()) if k != own and isinstance(v, dict)) or "-"
        sigs = "; ".join((r.get(own, {}) or {}).get("sigs", [])[:2]) if isinstance(r.get(own), dict) else ""
        if not sigs:
            for k, v in r.items():
                if isinstance(v, dict) and v.get("sigs"):
                    sigs = f"({k}) " + "; ".join(v["sigs"][:2])
                    break
        note = meta.get("superseded") or ""
        needs = (meta.get("needs") or "")[:150].replace("|", "/").replace("\n", " ")
        rows.append(f"| {name} | {needs}{' **' + note + '**' if note else ''} | {ownv} | {others} | {sigs.replace('|', '/')[:160]} |")
    return "\n".join(rows)


def main():
    p = os.path.join(ROOT, "DESIGN.md")
    s = open(p).read()
    for tag, fn in (("FINDINGS", findings), ("SEEDED", seeded)):
        block = f"<!-- {tag}:begin -->\n{fn()}\n<!-- {tag}:end -->"
        if f"@@{tag}@@" in s:
            s = s.replace(f"@@{tag}@@", block)
        else:
            s = re.sub(rf"<!-- {tag}:begin -->.*?<!-- {tag}:end -->", lambda m: block, s, flags=re.S)
    open(p, "w").write(s)
    print("DESIGN.md tables regenerated")


main()
