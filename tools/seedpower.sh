#!/bin/sh
# seedpower.sh NAME CHECK [seeds...]: run CHECK against seeded mutant NAME at several seeds (detection power)
n=$1; c=$2; shift 2
wt=/tmp/vf-pw-$n
git -C /repo worktree remove --force $wt 2>/dev/null
git -C /repo worktree add --detach $wt HEAD -q || exit 2
(cd $wt && (git apply /verif/seeded/$n/patch.diff || git apply -3 /verif/seeded/$n/patch.diff)) || exit 2
for s in ${@:-1 2 3}; do
  (VERIF_SEED=$s VERIF_REPO=$wt VERIF_EVIDENCE_DIR=/tmp/vf-pw-ev-$n-$s VERIF_REPLAY_DIR=/tmp/vf-pw-rp-$n-$s /venv/bin/python -B -m vf $c --tier quick 2>&1 | grep -E "^VIOLATION|quick seed" | cut -c1-170 | sed "s/^/[$n seed $s] /"; rm -rf /tmp/vf-pw-ev-$n-$s /tmp/vf-pw-rp-$n-$s) &
done
wait
git -C /repo worktree remove --force $wt
