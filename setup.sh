#!/bin/sh
# Offline set-up: everything comes from the wheelhouse on disk.
# hypothesis goes beside the repository's packages (no-op when present);
# jsonschema (C13, C15) and atheris (fuzz tiers) go to /verif/.deps (git-ignored).
set -e
cd "$(dirname "$0")"
WH=/opt/veriftools/wheels
/venv/bin/python -c "import hypothesis" 2>/dev/null || \
  /venv/bin/pip install -q --no-index --find-links $WH hypothesis
if [ ! -d .deps/jsonschema ]; then
  /venv/bin/pip install -q --no-index --find-links $WH --target .deps jsonschema
fi
if [ ! -d .deps/atheris ]; then
  /venv/bin/pip install -q --no-index --find-links $WH --target .deps atheris || true
fi
mkdir -p evidence replays .work
echo "setup ok"
