"""Greedy structural minimiser over JSON cases (the replay unit). pred(case) -> bool ("still fails
in the same bucket"). Bounded by wall-clock *budget* only as a cost cap: running out of time yields
a larger (still failing) case, never a different verdict."""
import copy
import time


def _candidates(x):
    """simpler replacements for one JSON node (not recursing)"""
    if isinstance(x, bool):
        if x:
            yield False
    elif isinstance(x, int):
        if x != 0:
            yield 0
            if abs(x) > 1:
                yield x // 2
                yield x - (1 if x > 0 else -1)
    elif isinstance(x, float):
        if x != 0.0:
            yield 0.0
    elif isinstance(x, str):
        if x:
            yield ""
            if len(x) > 1:
                yield x[: len(x) // 2]
                yield x[1:]
                yield x[:-1]
    elif isinstance(x, list):
        n = len(x)
        if n:
            if n > 3:
                yield x[: n // 2]
                yield x[n // 2:]
            for i in range(n):
                yield x[:i] + x[i + 1:]
    elif isinstance(x, dict):
        for k in list(x):
            y = dict(x)
            del y[k]
            yield y
        # hoist: a tagged container replaced by one of its tagged children
        for k, v in x.items():
            if isinstance(v, dict) and "t" in v and "t" in x:
                yield v
            if isinstance(v, list):
                for e in v:
                    if isinstance(e, dict) and "t" in e and "t" in x:
                        yield e


def _paths(x, pre=()):
    yield pre
    if isinstance(x, list):
        for i, e in enumerate(x):
            yield from _paths(e, pre + (i,))
    elif isinstance(x, dict):
        for k, e in x.items():
            yield from _paths(e, pre + (k,))


def _get(x, path):
    for p in path:
        x = x[p]
    return x


def _set(x, path, v):
    if not path:
        return v
    x = copy.deepcopy(x)
    cur = x
    for p in path[:-1]:
        cur = cur[p]
    cur[path[-1]] = v
    return x


def shrink(case, pred, budget_s=20.0):
    t_end = time.time() + budget_s
    improved = True
    while improved and time.time() < t_end:
        improved = False
        for path in list(_paths(case)):
            if time.time() >= t_end:
                break
            try:
                node = _get(case, path)
            except (KeyError, IndexError, TypeError):
                continue
            for cand in _candidates(node):
                if time.time() >= t_end:
                    break
                trial = _set(case, path, cand)
                ok = False
                try:
                    ok = pred(trial)
                except Exception:
                    ok = False
                if ok:
                    case = trial
                    improved = True
                    break
            if improved:
                break
    return case
