"""TypeSpec: JSON AST of a declared type; build() -> the utype type; conforms() -> the C01 predicate.

kinds:  leaf{o} | con{o,c,lax?,contains?} | list/set/frozenset/tuplev{a} | tuple{a:[..]} | dict{key,val}
        lit{v:[ValueSpec]} | enum{e} | union/xor/and{a:[..]} | not{a} | opt{a} | any | data{d: DeclSpec}
every node may carry "m": build mode ('annotate' | 'class' | 'typing' | 'op')
"""
import collections.abc
import datetime as dt
import decimal
import enum
import typing
import uuid

from . import codec, constraints
from .core import HarnessError

ORIGINS = {
    "none": type(None), "bool": bool, "int": int, "float": float, "decimal": decimal.Decimal,
    "complex": complex, "str": str, "bytes": bytes, "bytearray": bytearray, "list": list, "tuple": tuple,
    "set": set, "frozenset": frozenset, "dict": dict, "date": dt.date, "datetime": dt.datetime,
    "time": dt.time, "timedelta": dt.timedelta, "uuid": uuid.UUID,
}
SEQ_KINDS = {"list": list, "set": set, "frozenset": frozenset, "tuplev": tuple}
TYPING_SEQ = {"list": typing.List, "set": typing.Set, "frozenset": typing.FrozenSet}
UNSUBCLASSABLE = {"none", "bool"}

_counter = [0]


def _name(prefix):
    _counter[0] += 1
    return f"{prefix}{_counter[0]}"


def decode_constraints(c, lax=()):
    import utype
    out = {}
    for k, v in c.items():
        if k in ("gt", "ge", "lt", "le", "const", "multiple_of"):
            val = codec.decode(v)
        elif k == "enum":
            if isinstance(v, dict) and "enumcls" in v:
                val = codec.ENUMS[v["enumcls"]]
            else:
                val = [codec.decode(e) for e in v]
        else:
            val = v
        if k in lax:
            val = utype.Lax(val)
        out[k] = val
    return out


KINDS = {"leaf", "con", "list", "set", "frozenset", "tuplev", "tuple", "dict", "lit", "enum", "union", "xor", "and",
         "not", "opt", "any", "data"}


def validate(spec):
    """shape check (the shrinker produces arbitrary sub-structures): raises HarnessError"""
    if not isinstance(spec, dict) or spec.get("k") not in KINDS:
        raise HarnessError("malformed TypeSpec")
    k = spec["k"]
    try:
        if k == "leaf":
            if spec["o"] not in ORIGINS:
                raise HarnessError("bad origin")
        elif k == "con":
            if spec["o"] not in ORIGINS or not isinstance(spec.get("c", {}), dict):
                raise HarnessError("bad con")
            if not spec.get("c") and spec.get("contains") is None:
                raise HarnessError("con without constraints")
            for a in spec.get("args", []) or []:
                validate(a)
            if spec.get("contains") is not None:
                validate(spec["contains"])
        elif k in SEQ_KINDS or k in ("opt", "not"):
            validate(spec["a"])
        elif k == "tuple":
            if not isinstance(spec["a"], list) or not spec["a"]:
                raise HarnessError("empty tuple spec")
            for a in spec["a"]:
                validate(a)
        elif k == "dict":
            validate(spec["key"])
            validate(spec["val"])
        elif k == "lit":
            if not isinstance(spec["v"], list) or not spec["v"]:
                raise HarnessError("empty literal")
        elif k == "enum":
            if spec["e"] not in codec.ENUMS:
                raise HarnessError("bad enum")
        elif k in ("union", "xor", "and"):
            if not isinstance(spec["a"], list) or len(spec["a"]) < 2:
                raise HarnessError("combinator needs >= 2 args")
            for a in spec["a"]:
                validate(a)
        elif k == "data":
            if not isinstance(spec["d"], dict):
                raise HarnessError("bad data spec")
    except (KeyError, TypeError):
        raise HarnessError("malformed TypeSpec")


def build(spec, decl_builder=None):
    """-> a type accepted by utype (class, Rule subclass, LogicalType, data class)"""
    import utype
    from utype.parser.rule import LogicalType, Rule
    k = spec["k"]
    m = spec.get("m", "annotate")
    if k == "any":
        return Rule
    if k == "leaf":
        return ORIGINS[spec["o"]]
    if k == "con":
        origin = ORIGINS[spec["o"]] if spec.get("o") else None
        cons = decode_constraints(spec.get("c", {}), spec.get("lax", ()))
        if spec.get("contains") is not None:
            cons["contains"] = build(spec["contains"], decl_builder)
            for kk in ("min_contains", "max_contains"):
                if spec.get(kk) is not None:
                    cons[kk] = spec[kk]
        args = [build(a, decl_builder) for a in spec.get("args", [])]
        if m == "class" and origin is not None and spec["o"] not in UNSUBCLASSABLE and not args:
            return LogicalType(_name("C"), (origin, Rule), dict(cons))
        if m == "typing" and not args:
            return Rule.parse_annotation(origin, constraints=cons)
        return Rule.annotate(origin, *args, constraints=cons)
    if k in SEQ_KINDS:
        a = build(spec["a"], decl_builder)
        if m == "typing":
            ann = typing.Tuple[a, ...] if k == "tuplev" else TYPING_SEQ[k][a]
            return Rule.parse_annotation(ann)
        if k == "tuplev":
            return Rule.annotate(tuple, a, ...)
        return Rule.annotate(SEQ_KINDS[k], a)
    if k == "tuple":
        args = [build(a, decl_builder) for a in spec["a"]]
        if m == "typing":
            return Rule.parse_annotation(typing.Tuple[tuple(args)])
        return Rule.annotate(tuple, *args)
    if k == "dict":
        kt, vt = build(spec["key"], decl_builder), build(spec["val"], decl_builder)
        if m == "typing":
            return Rule.parse_annotation(typing.Dict[kt, vt])
        return Rule.annotate(dict, kt, vt)
    if k == "lit":
        vals = tuple(codec.decode(v) for v in spec["v"])
        return Rule.parse_annotation(typing.Literal[vals])
    if k == "enum":
        return codec.ENUMS[spec["e"]]
    if k == "opt":
        a = build(spec["a"], decl_builder)
        if m == "typing":
            return Rule.parse_annotation(typing.Optional[a])
        return LogicalType.any_of(a, None)
    if k in ("union", "xor", "and"):
        args = [build(a, decl_builder) for a in spec["a"]]
        if k == "union" and m == "typing":
            return Rule.parse_annotation(typing.Union[tuple(args)])
        if m == "op" and any(isinstance(x, LogicalType) or isinstance(x, utype.LogicalMeta) for x in args[:2]):
            import operator
            f = {"union": operator.or_, "xor": operator.xor, "and": operator.and_}[k]
            t = args[0]
            for x in args[1:]:
                t = f(t, x)
            return t
        f = {"union": LogicalType.any_of, "xor": LogicalType.one_of, "and": LogicalType.all_of}[k]
        return f(*args)
    if k == "not":
        a = build(spec["a"], decl_builder)
        if m == "op" and isinstance(a, (LogicalType, utype.LogicalMeta)):
            return ~a
        return LogicalType.not_of(a)
    if k == "data":
        if decl_builder is None:
            from . import dspec
            return dspec.build_decl(spec["d"])
        return decl_builder(spec["d"])
    raise HarnessError(f"bad TypeSpec kind {k!r}")


# -- conformance ----------------------------------------------------------------------------------

def _is_instance_strict(v, o):
    """instance of the declared source type; a declared int must not hand back a bool"""
    origin = ORIGINS[o]
    if o == "none":
        return v is None
    if not isinstance(v, origin):
        return False
    # the statement says "instance of the declared source type": a bool is an instance of int in Python,
    # so `True` for a declared int is not reported (oracle correction, DESIGN section 8)
    return True


# Options(addition=True | T) in force lets a fixed-length tuple carry further items (that is how `items` next to `prefixItems`
# is expressed): checks that run under such options set this while judging (the extra items are not judged)
TUPLE_EXTRA_OK = [False]


def conforms(v, spec, why=None, inst_check=None):
    """True iff *v* is a conforming result for *spec*.  `why` (list) receives the first reason.
    inst_check(v, declspec, why) judges data-class instances (supplied by dspec)."""
    def no(msg):
        if why is not None and not why:
            why.append(msg)
        return False

    k = spec["k"]
    if k == "any":
        return True
    if k == "leaf":
        if not _is_instance_strict(v, spec["o"]):
            return no(f"leaf:{spec['o']}/not-instance:{type(v).__name__}")
        return True
    if k == "con":
        o = spec.get("o")
        if o and not _is_instance_strict(v, o):
            # const/enum with tolerance pairs hand back the constant: judged below, not here
            return no(f"con:{o}/not-instance:{type(v).__name__}")
        if v is None and o:
            return True
        cons = decode_constraints({kk: vv for kk, vv in spec.get("c", {}).items()
                                   if kk not in spec.get("lax", ())})
        for a_spec, elems in _args_view(spec, v):
            for e in elems:
                if not conforms(e, a_spec, why, inst_check):
                    return False
        r = constraints.all_hold(cons, v)
        if r is False:
            return no(f"con:{spec.get('o')}/constraint-violated:{_first_violated(cons, v)}")
        if spec.get("contains") is not None and isinstance(v, (list, tuple, set, frozenset)):
            # documented: at least one element (at least min_contains, at most max_contains) converts to the contained type;
            # whether one element converts is the library's own standalone verdict (the exact counting on well-typed values is C02's)
            import utype
            from . import oracle
            CT = build(spec["contains"])
            n = 0
            for e in v:
                r = oracle.outcome(utype.type_transform, e, CT)
                if r[0] == "ok":
                    n += 1
                elif r[0] == "hang":
                    return True
            lo, hi = spec.get("min_contains"), spec.get("max_contains")
            if n < max(1, lo or 0) or (hi and n > hi):
                return no(f"con:{spec.get('o')}/contains-count:{min(n, 3)}")
        return True
    if k in SEQ_KINDS:
        origin = SEQ_KINDS[k]
        if not isinstance(v, origin):
            return no(f"{k}/not-instance:{type(v).__name__}")
        for i, e in enumerate(v):
            if not conforms(e, spec["a"], why, inst_check):
                return False
        return True
    if k == "tuple":
        if not isinstance(v, tuple):
            return no(f"tuple/not-instance:{type(v).__name__}")
        if len(v) < len(spec["a"]) or (len(v) > len(spec["a"]) and not TUPLE_EXTRA_OK[0]):
            return no("tuple/wrong-length")
        for i, (e, a) in enumerate(zip(v, spec["a"])):
            if not conforms(e, a, why, inst_check):
                return False
        return True
    if k == "dict":
        if not isinstance(v, dict):
            return no(f"dict/not-instance:{type(v).__name__}")
        for kk, vv in v.items():
            if not conforms(kk, spec["key"], why, inst_check):
                return False
            if not conforms(vv, spec["val"], why, inst_check):
                return False
        return True
    if k == "lit":
        vals = [codec.decode(x) for x in spec["v"]]
        if len(vals) == 1:
            # Literal[c] is the const constraint: equal and type-exact
            if constraints.holds("const", vals[0], v):
                return True
        elif constraints.holds("enum", vals, v):
            # Literal[a, b, ...] is the enum constraint: membership (Python `in`) - and the source type is the type of a value
            # (1.0 == 1, but a float is no instance of the declared Literal[1, 'a'])
            if not isinstance(v, tuple({type(m) for m in vals})):
                return no(f"lit/equal-to-a-value-but-of-no-value's-type:{type(v).__name__}")
            return True
        return no(f"lit/not-a-literal:{type(v).__name__}")
    if k == "enum":
        if not isinstance(v, codec.ENUMS[spec["e"]]):
            return no(f"enum/not-member:{type(v).__name__}")
        return True
    if k == "opt":
        return v is None or conforms(v, spec["a"], why, inst_check)
    if k in ("union", "xor"):
        for a in spec["a"]:
            if conforms(v, a, None, inst_check):
                return True
        return no(f"{k}/no-argument-conforms")
    if k == "and":
        # conjunction applies its arguments in order: the result conforms to the last positive argument
        pos = [a for a in spec["a"] if a["k"] != "not"]
        if pos and not conforms(v, pos[-1], why, inst_check):
            return False
        return True
    if k == "not":
        return True
    if k == "data":
        if inst_check is None:
            from . import dspec
            inst_check = dspec.inst_conforms
        return inst_check(v, spec["d"], why)
    raise HarnessError(f"bad TypeSpec kind {k!r}")


def _first_violated(cons, v):
    if "const" in cons:
        return "const"
    if "enum" in cons:
        return "enum"
    cur = v
    for name in constraints.ORDER:
        if name in cons:
            if constraints.holds(name, cons[name], cur) is False:
                return name
            if name == "decimal_places":
                cur = constraints.pad_decimal(cur, cons[name])
    return "?"


def _args_view(spec, v):
    """(element spec, elements) pairs for a constrained generic (con with args)"""
    args = spec.get("args") or []
    if not args:
        return []
    o = spec.get("o")
    try:
        if o in ("list", "set", "frozenset"):
            return [(args[0], list(v))]
        if o == "tuple":
            return [(args[0], list(v))]
        if o == "dict" and len(args) == 2:
            return [(args[0], list(v.keys())), (args[1], list(v.values()))]
    except Exception:
        return []
    return []


def origin_names(spec):
    """set of origin names that may appear at the top of a conforming value (for non-triviality)"""
    k = spec["k"]
    if k in ("leaf", "con"):
        return {spec.get("o")}
    if k in SEQ_KINDS:
        return {"tuple" if k == "tuplev" else k}
    if k == "tuple":
        return {"tuple"}
    if k == "dict":
        return {"dict"}
    if k in ("opt",):
        return origin_names(spec["a"]) | {"none"}
    if k in ("union", "xor", "and"):
        s = set()
        for a in spec["a"]:
            s |= origin_names(a)
        return s
    return {k}


def has_kind(spec, kinds):
    if spec["k"] in kinds:
        return True
    for key in ("a", "key", "val", "contains"):
        sub = spec.get(key)
        if isinstance(sub, dict) and has_kind(sub, kinds):
            return True
        if isinstance(sub, list) and any(isinstance(x, dict) and has_kind(x, kinds) for x in sub):
            return True
    for x in spec.get("args", []) or []:
        if has_kind(x, kinds):
            return True
    return False
