"""Documented semantics of every built-in constraint, written from docs/en/references/rule.md and
deliberately not in the shape of the implementation.  holds() returns True / False / None
(None = unspecified zone: the oracle is silent)."""
import decimal
import enum
import math
import re
from fractions import Fraction

D = decimal.Decimal

TOLERANCE = [frozenset({int, float}), frozenset({int, D}), frozenset({float, D})]


def _cmp(f):
    try:
        return bool(f())
    except Exception:
        return False


def _length_of(v):
    if hasattr(v, "__len__"):
        return len(v)
    return len(str(v))


def fixed_point(v):
    """(digits, decimals) of the fixed-point rendering without sign; None when unspecified"""
    if isinstance(v, bool):
        return None
    if isinstance(v, D):
        d = v
    elif isinstance(v, (int, float)):
        try:
            d = D(str(v))
        except decimal.InvalidOperation:
            return None
    else:
        return None
    if not d.is_finite():
        return None
    if d.is_zero() and d.as_tuple().exponent > 0:
        return None  # 0E+3: rendering of a zero with positive exponent is not specified anywhere
    s = format(d.copy_abs(), "f")
    if "." in s:
        ip, fp = s.split(".")
    else:
        ip, fp = s, ""
    ip = ip.lstrip("0")
    digits = len(ip) + len(fp)
    if digits == 0:
        digits = 1  # the number 0 has one digit
    return digits, len(fp)


def pad_decimal(v, places):
    """docs: a Decimal with fewer decimal digits is completed first (1.5 -> 1.50)"""
    if isinstance(v, D) and v.is_finite():
        fp = fixed_point(v)
        if fp and fp[1] < places:
            return v.quantize(D(1).scaleb(-places), context=decimal.Context(prec=10000))
    return v


def is_multiple(v, of):
    if isinstance(v, bool) or isinstance(of, bool):
        return None
    try:
        if isinstance(v, float) and not math.isfinite(v):
            return False
        if isinstance(v, D) and not v.is_finite():
            return False
        fv, fo = Fraction(v), Fraction(of)
    except (TypeError, ValueError, OverflowError):
        return None
    if fo == 0:
        return None
    # precision artefacts of the implementation's arithmetic are not part of the documented meaning
    if isinstance(v, D) and (abs(fv) >= Fraction(10) ** 25 or (fv != 0 and abs(fv) < Fraction(1, 10 ** 25))):
        return None
    if isinstance(v, D) and isinstance(of, float):
        return None  # Decimal % float is a TypeError in Python: mixed use is not documented
    if isinstance(v, int) and isinstance(of, float) and abs(v) > 2 ** 53:
        return None
    if isinstance(v, float) and isinstance(of, int) and abs(of) > 2 ** 53:
        return None
    if isinstance(v, D) and len(v.as_tuple().digits) > 26:
        return None
    return (fv / fo).denominator == 1


def holds(name, bound, v):
    if name == "gt":
        return _cmp(lambda: v > bound)
    if name == "ge":
        return _cmp(lambda: v >= bound)
    if name == "lt":
        return _cmp(lambda: v < bound)
    if name == "le":
        return _cmp(lambda: v <= bound)
    if name == "length":
        return _length_of(v) == bound
    if name == "max_length":
        return _length_of(v) <= bound
    if name == "min_length":
        return _length_of(v) >= bound
    if name == "regex":
        try:
            s = str(v)
        except Exception:
            return None
        m = re.match(r"\(\?[aiLmsux]+\)", bound)   # leading global flags stay in front
        flags, body = (m.group(0), bound[m.end():]) if m else ("", bound)
        return re.match(r"%s(?:%s)\Z" % (flags, body), s) is not None
    if name == "const":
        try:
            eq = bool(v == bound)
        except Exception:
            return False
        if not eq:
            return False
        if type(v) is type(bound):
            return True
        return frozenset({type(v), type(bound)}) in TOLERANCE
    if name == "enum":
        if isinstance(bound, enum.EnumMeta):
            x = v.value if isinstance(v, enum.Enum) else v
            return any(_cmp(lambda m=m: m.value == x and type(m.value) is type(x) or m.value == x) for m in bound)
        x = v.value if isinstance(v, enum.Enum) else v
        return any(x is m or _cmp(lambda m=m: x == m) for m in bound)
    if name == "max_digits":
        fp = fixed_point(v)
        if fp is None:
            return None
        if fp[0] == 1 and bound == 0:
            return None
        return fp[0] <= bound
    if name == "decimal_places":
        fp = fixed_point(v)
        if fp is None:
            return None
        return fp[1] <= bound
    if name == "multiple_of":
        return is_multiple(v, bound)
    if name == "unique_items":
        if not bound:
            return True
        seen = []
        try:
            for x in v:
                for y in seen:
                    if x is y or x == y:
                        return False
                seen.append(x)
        except Exception:
            return None
        return True
    raise KeyError(name)


ORDER = ["gt", "ge", "lt", "le", "const", "enum", "regex", "decimal_places", "multiple_of", "max_digits",
         "length", "max_length", "min_length", "unique_items"]


def all_hold(cons, v):
    """verdict of a strict constraint set on a value of the source type.
    -> True / False / None (some constraint is in an unspecified zone and no other one decides 'False')"""
    unknown = False
    if "const" in cons:
        cons = {"const": cons["const"]}  # docs/code: const ignores other constraints
    elif "enum" in cons:
        cons = {"enum": cons["enum"]}
    cur = v
    for name in ORDER:
        if name not in cons:
            continue
        b = cons[name]
        r = holds(name, b, cur)
        if r is False:
            return False
        if r is None:
            unknown = True
        if name == "decimal_places" and r:
            cur = pad_decimal(cur, b)
    return None if unknown else True
