"""Runner core: context, buckets, known findings, shards, evidence, exit codes.

A check module (vf/checks/cXX.py) provides
    ID, RULE, ASSUMPTIONS, SHARDS = {'quick': n, 'thorough': m}
    campaign(ctx)          -- generated-input search; oracle failures are filed with ctx.fail(...)
    judge(case) -> [(sig, detail), ...]   -- pure re-execution of one case (replay, shrinking)
Exit codes: 0 held (KNOWN-FINDING lines allowed), 1 violation(s), 2 harness error.
"""
import hashlib
import importlib
import json
import os
import subprocess
import sys
import time
import traceback
from collections import Counter

ROOT = os.path.dirname(os.path.dirname(os.path.abspath(__file__)))
REPO = os.environ.get("VERIF_REPO", "/repo")
WORK = os.path.join(ROOT, ".work")
DEPS = os.path.join(ROOT, ".deps")


class HarnessError(Exception):
    """Something is wrong with the harness (generator health, malformed case...), never a verdict."""


def setup_paths():
    if REPO not in sys.path:
        sys.path.insert(0, REPO)
    if os.path.isdir(DEPS) and DEPS not in sys.path:
        sys.path.append(DEPS)
    import warnings
    warnings.simplefilter("ignore")
    import utype  # noqa
    f = os.path.realpath(utype.__file__)
    if not f.startswith(os.path.realpath(REPO) + os.sep):
        raise HarnessError(f"utype imported from {f}, expected under {REPO}")


def canon(obj):
    return json.dumps(obj, sort_keys=True, separators=(",", ":"), default=repr)


def h12(obj):
    return hashlib.sha1(canon(obj).encode()).hexdigest()[:12]


def jsize(obj):
    return len(canon(obj))


class Ctx:
    MAX_SAMPLES = 4

    def __init__(self, pid, tier, seed, shard=0, nshards=1):
        self.pid, self.tier, self.seed = pid, tier, seed
        self.shard, self.nshards = shard, nshards
        self.evaluations = 0
        self.labels = Counter()
        self.nontrivial = set()
        self.samples = {}
        self.buckets = {}
        self.exhaustive = None
        self.extra = {}

    # -- sizes --------------------------------------------------------------------------------
    @property
    def thorough(self):
        return self.tier == "thorough"

    def n(self, quick, thorough):
        """per-shard case budget"""
        return thorough if self.thorough else quick

    @property
    def hseed(self):
        return self.seed * 1000 + self.shard

    # -- recording ----------------------------------------------------------------------------
    def ev(self, k=1):
        self.evaluations += k

    def label(self, name, k=1):
        self.labels[name] += k

    def nt(self, key):
        self.nontrivial.add(h12(key))

    def sample(self, kind, case):
        lst = self.samples.setdefault(kind, [])
        if len(lst) < self.MAX_SAMPLES:
            lst.append(case)

    def fail(self, sig, case, detail=None):
        b = self.buckets.get(sig)
        size = jsize(case)
        if b is None:
            self.buckets[sig] = {"count": 1, "case": case, "size": size, "detail": detail}
        else:
            b["count"] += 1
            if size < b["size"]:
                b.update(case=case, size=size, detail=detail)

    def fail_all(self, failures, case):
        for sig, detail in failures:
            self.fail(sig, case, detail)

    # -- hypothesis helper --------------------------------------------------------------------
    def run_given(self, strategy, fn, max_examples, stateful_steps=None):
        import hypothesis
        from hypothesis import HealthCheck, Phase, given, settings

        st = settings(
            max_examples=max_examples, database=None, deadline=None, derandomize=False,
            report_multiple_bugs=False, phases=[Phase.generate],
            suppress_health_check=[HealthCheck.too_slow, HealthCheck.data_too_large,
                                   HealthCheck.large_base_example],
            print_blob=False,
        )

        @hypothesis.seed(self.hseed)
        @st
        @given(strategy)
        def test(case):
            self.ev()
            fn(case)

        test()

    def run_machine(self, machine_cls, max_examples, steps):
        import hypothesis
        from hypothesis import HealthCheck, Phase, settings
        from hypothesis.stateful import run_state_machine_as_test

        st = settings(
            max_examples=max_examples, stateful_step_count=steps, database=None, deadline=None,
            derandomize=False, report_multiple_bugs=False, phases=[Phase.generate],
            suppress_health_check=[HealthCheck.too_slow, HealthCheck.data_too_large,
                                   HealthCheck.large_base_example, HealthCheck.filter_too_much],
            print_blob=False,
        )
        run_state_machine_as_test(hypothesis.seed(self.hseed)(machine_cls), settings=st)

    # -- (de)serialisation for shards ---------------------------------------------------------
    def to_partial(self):
        return {
            "evaluations": self.evaluations, "labels": dict(self.labels),
            "nontrivial": sorted(self.nontrivial), "samples": self.samples,
            "buckets": self.buckets, "exhaustive": self.exhaustive, "extra": self.extra,
        }

    def merge(self, p):
        self.evaluations += p["evaluations"]
        self.labels.update(p["labels"])
        self.nontrivial.update(p["nontrivial"])
        for k, v in p["samples"].items():
            lst = self.samples.setdefault(k, [])
            for c in v:
                if len(lst) < self.MAX_SAMPLES:
                    lst.append(c)
        for sig, b in p["buckets"].items():
            mine = self.buckets.get(sig)
            if mine is None:
                self.buckets[sig] = b
            else:
                mine["count"] += b["count"]
                if b["size"] < mine["size"]:
                    mine.update(case=b["case"], size=b["size"], detail=b["detail"])
        if p.get("exhaustive") is not None:
            self.exhaustive = p["exhaustive"] if self.exhaustive is None else (self.exhaustive and p["exhaustive"])
        for k, v in (p.get("extra") or {}).items():
            if isinstance(v, (int, float)) and not isinstance(v, bool) and isinstance(self.extra.get(k), (int, float)):
                self.extra[k] += v
            else:
                self.extra.setdefault(k, v)


# -------------------------------------------------------------------------------------------------

def load_check(pid):
    return importlib.import_module(f"vf.checks.{pid.lower()}")


def load_known(pid):
    path = os.path.join(ROOT, "known_findings.json")
    if not os.path.exists(path):
        return []
    with open(path) as f:
        data = json.load(f)
    return [e for e in data.get("findings", []) if e.get("property") == pid]


def kf_matches(entry, sig, detail):
    m = entry.get("match", {})
    if "sig" in m and m["sig"] != sig:
        return False
    if "sig_prefix" in m and not sig.startswith(m["sig_prefix"]):
        return False
    if "sig_regex" in m:
        import re
        if not re.search(m["sig_regex"], sig):
            return False
    if "sig_in" in m and sig not in m["sig_in"]:
        return False
    if "sig" not in m and "sig_prefix" not in m and "sig_regex" not in m and "sig_in" not in m:
        return False
    where = m.get("where")
    if where:
        if not isinstance(detail, dict):
            return False
        for k, v in where.items():
            if detail.get(k) != v:
                return False
    return True


def utype_commit():
    try:
        sha = subprocess.run(["git", "-C", REPO, "rev-parse", "--short", "HEAD"], capture_output=True,
                             text=True, timeout=20).stdout.strip()
        dirty = subprocess.run(["git", "-C", REPO, "status", "--porcelain", "--untracked-files=no"],
                               capture_output=True, text=True, timeout=20).stdout.strip()
        return sha + ("+dirty" if dirty else "")
    except Exception:
        return "unknown"


def run_shard(pid, tier, seed, shard, nshards, partial_path):
    setup_paths()
    mod = load_check(pid)
    ctx = Ctx(pid, tier, seed, shard, nshards)
    mod.campaign(ctx)
    with open(partial_path, "w") as f:
        json.dump(ctx.to_partial(), f, default=repr)
    return 0


def safe_judge(mod, case):
    """judge for shrinking/replay: malformed cases count as 'does not fail'"""
    try:
        return mod.judge(case)
    except HarnessError:
        return []
    except Exception:
        return []


def main_check(pid, tier, seed):
    from . import shrink as shrinker
    t0 = time.time()
    setup_paths()
    mod = load_check(pid)
    nshards = getattr(mod, "SHARDS", {}).get(tier, 1)
    ctx = Ctx(pid, tier, seed, 0, nshards)
    os.makedirs(WORK, exist_ok=True)

    if nshards <= 1:
        mod.campaign(ctx)
    else:
        procs = []
        env = dict(os.environ)
        for k in range(nshards):
            pp = os.path.join(WORK, f"{pid}-{tier}-{seed}-{k}.{os.getpid()}.json")
            cmd = [sys.executable, "-B", "-m", "vf", pid, "--tier", tier, "--shard", str(k),
                   "--nshards", str(nshards), "--partial", pp]
            procs.append((k, pp, subprocess.Popen(cmd, cwd=ROOT, env=env, stdout=subprocess.PIPE,
                                                  stderr=subprocess.STDOUT, text=True)))
        bad = []
        for k, pp, p in procs:
            out, _ = p.communicate()
            if p.returncode != 0 or not os.path.exists(pp):
                bad.append((k, p.returncode, out[-3000:]))
                continue
            with open(pp) as f:
                ctx.merge(json.load(f))
            os.unlink(pp)
        if bad:
            for k, rc, out in bad:
                print(f"HARNESS-ERROR shard={k} rc={rc}\n{out}")
            return 2

    known = load_known(pid)
    violations = []
    printed_kf = set()

    # 1. regression / witness replays registered in known_findings.json
    for e in known:
        w = e.get("witness")
        if not w:
            continue
        wp = os.path.join(ROOT, w)
        if not os.path.exists(wp):
            print(f"HARNESS-ERROR missing witness {w}")
            return 2
        with open(wp) as f:
            rep = json.load(f)
        fails = mod.judge(rep["case"])
        ctx.label("witness_replays")
        if e["status"] == "known":
            hit = [s for s, d in fails if kf_matches(e, s, d)]
            if hit:
                if e["id"] not in printed_kf:
                    printed_kf.add(e["id"])
                    print(f"KNOWN-FINDING: property={pid} {e['id']} {e['what']}")
            else:
                print(f"note: known finding {e['id']} no longer reproduces from its witness")
            other = [(s, d) for s, d in fails if not any(kf_matches(k2, s, d) for k2 in known if k2["status"] == "known")]
            for s, d in other:
                ctx.fail(s, rep["case"], d)
        else:  # fixed: must not fail any more
            for s, d in fails:
                if not any(kf_matches(k2, s, d) for k2 in known if k2["status"] == "known"):
                    ctx.fail(s, rep["case"], d)

    # 2. buckets from the campaign
    bucket_report = {}
    for sig in sorted(ctx.buckets):
        b = ctx.buckets[sig]
        entry = next((e for e in known if e["status"] == "known" and kf_matches(e, sig, b["detail"])), None)
        bucket_report[sig] = {"count": b["count"], "known_finding": entry["id"] if entry else None}
        if entry:
            if entry["id"] not in printed_kf:
                printed_kf.add(entry["id"])
                print(f"KNOWN-FINDING: property={pid} {entry['id']} {entry['what']}")
            continue
        case, detail = b["case"], b["detail"]
        n_unlisted = sum(1 for s2 in ctx.buckets if not any(
            e["status"] == "known" and kf_matches(e, s2, ctx.buckets[s2]["detail"]) for e in known))
        total = float(os.environ.get("VERIF_SHRINK_S", 40.0 if tier == "quick" else 300.0))
        budget = max(1.0, min(20.0 if tier == "quick" else 90.0, total / max(1, n_unlisted)))

        def still(c, _sig=sig):
            return any(s == _sig for s, _ in safe_judge(mod, c))

        reproduced = still(case)
        if reproduced and not getattr(mod, "NO_SHRINK", False):
            try:
                case = shrinker.shrink(case, still, budget)
                fl = [d for s, d in safe_judge(mod, case) if s == sig]
                if fl:
                    detail = fl[0]
            except Exception:
                traceback.print_exc()
        rdir = os.path.join(os.environ.get("VERIF_REPLAY_DIR") or os.path.join(ROOT, "replays"), pid)
        os.makedirs(rdir, exist_ok=True)
        rpath = os.path.join(rdir, f"v-{h12(sig)}.json")
        with open(rpath, "w") as f:
            json.dump({"property": pid, "sig": sig, "case": case, "detail": detail, "seed": seed,
                       "tier": tier, "utype_commit": utype_commit(), "count": b["count"],
                       "reproduced_by_judge": reproduced}, f, indent=1, default=repr)
        violations.append((sig, rpath))
        bucket_report[sig]["replay"] = rpath

    # 3. evidence
    samples = []
    for kind, lst in sorted(ctx.samples.items()):
        for c in lst:
            samples.append({"kind": kind, "case": c})
    coverage = {
        "evaluations": ctx.evaluations,
        "distinct_nontrivial": len(ctx.nontrivial),
        "rule": mod.RULE,
        "samples": samples,
        "labels": dict(sorted(ctx.labels.items())),
        "buckets": bucket_report,
        "shards": nshards,
        "utype_commit": utype_commit(),
    }
    if ctx.exhaustive is not None:
        coverage["exhaustive"] = bool(ctx.exhaustive)
    coverage.update(ctx.extra)
    ev = {
        "property_id": pid, "tier": tier, "seed": seed, "level": "exploration",
        "coverage": coverage, "assumptions": list(getattr(mod, "ASSUMPTIONS", [])),
        "wall_s": round(time.time() - t0, 2), "violations": len(violations),
    }
    evdir = os.environ.get("VERIF_EVIDENCE_DIR") or os.path.join(ROOT, "evidence")
    os.makedirs(evdir, exist_ok=True)
    with open(os.path.join(evdir, f"{pid}.json"), "w") as f:
        json.dump(ev, f, indent=1, default=repr)

    # generator health: a campaign that produced (almost) nothing non-trivial is a harness failure
    min_nt = getattr(mod, "MIN_NONTRIVIAL", 2)
    if len(ctx.nontrivial) < min_nt:
        print(f"HARNESS-ERROR generator health: distinct_nontrivial={len(ctx.nontrivial)} < {min_nt}")
        return 2

    for sig, rpath in violations:
        print(f"VIOLATION property={pid} replay={rpath}  # {sig}")
    print(f"{pid} {tier} seed={seed}: evaluations={ctx.evaluations} nontrivial={len(ctx.nontrivial)} "
          f"buckets={len(ctx.buckets)} violations={len(violations)} wall={ev['wall_s']}s")
    return 1 if violations else 0


def main_replay(pid, path):
    setup_paths()
    mod = load_check(pid)
    with open(path) as f:
        rep = json.load(f)
    fails = mod.judge(rep["case"])
    if fails:
        for s, d in fails:
            print(f"  fails: {s}: {json.dumps(d, default=repr)[:600]}")
        print(f"VIOLATION property={pid} replay={path}")
        return 1
    print(f"replay {path}: holds")
    return 0


def fuzz_tier_hyp(ctx, mod, quick_runs=2000, thorough_runs=40000):
    """coverage-guided structured fuzzing: atheris mutates the choice sequence of the check's own Hypothesis strategy
    (vf/fuzz/hyp.py, `fuzz_one_input`); failures come back as cases and are re-judged by the check."""
    import shutil
    if ctx.shard >= (4 if ctx.thorough else 1):
        return
    try:
        sys.path.append(DEPS)
        import atheris  # noqa: F401
    except Exception:
        ctx.label("fuzz_tier_skipped_atheris_missing")
        return
    runs = thorough_runs if ctx.thorough else quick_runs
    tag = f"{mod.ID}-{ctx.tier}-{ctx.seed}-{ctx.shard}-{os.getpid()}"
    out = os.path.join(WORK, f"hfuzz-{tag}.jsonl")
    corpus = os.path.join(WORK, f"hcorpus-{tag}")
    os.makedirs(corpus, exist_ok=True)
    env = dict(os.environ, VF_FUZZ_OUT=out, VERIF_REPO=REPO, PYTHONHASHSEED="0")
    cmd = [sys.executable, "-B", os.path.join(ROOT, "vf", "fuzz", "hyp.py"), mod.ID, f"-runs={runs}", f"-seed={ctx.hseed + 1}", corpus]
    try:
        subprocess.run(cmd, env=env, cwd=ROOT, stdout=subprocess.DEVNULL, stderr=subprocess.DEVNULL, timeout=3600)
    except subprocess.TimeoutExpired:
        ctx.label("fuzz_tier_timeout")
    stats = {}
    if os.path.exists(out + ".stats"):
        with open(out + ".stats") as f:
            stats = json.load(f)
    ctx.ev(stats.get("cases", 0))
    ctx.label("fuzz_execs", stats.get("execs", 0))
    ctx.label("fuzz_valid_cases", stats.get("cases", 0))
    ctx.extra["fuzz_corpus_files"] = len(os.listdir(corpus))
    if os.path.exists(out):
        with open(out) as f:
            for line in f:
                rec = json.loads(line)
                try:
                    fails = mod.judge(rec["case"])
                except Exception:
                    continue
                ctx.fail_all(fails, rec["case"])
                ctx.label("fuzz_reported_failures")
    for pth in (out, out + ".stats"):
        if os.path.exists(pth):
            os.unlink(pth)
    shutil.rmtree(corpus, ignore_errors=True)
