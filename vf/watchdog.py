"""Deterministic termination watchdog: counts LINE events in code objects under <repo>/utype via
sys.monitoring (3.12).  When the budget is exhausted it raises oracle.Hang (a BaseException: utype
wraps `except Exception` almost everywhere) into the monitored code.  No wall clock involved."""
import os
import sys

from .core import REPO
from .oracle import Hang

_PREFIX = os.path.join(os.path.realpath(REPO), "utype") + os.sep
TOOL = 3  # a free tool id (0 debugger, 1 coverage, 2 profiler, 5 optimizer)


class LineBudget:
    def __init__(self):
        self.count = 0
        self.budget = 0
        self.last = None
        self.active = False
        self._installed = False
        self._is_utype = {}

    def install(self):
        if self._installed:
            return
        mon = sys.monitoring
        try:
            mon.use_tool_id(TOOL, "vf-watchdog")
        except ValueError:
            pass
        mon.register_callback(TOOL, mon.events.LINE, self._on_line)
        self._installed = True

    def _on_line(self, code, line):
        if not self.active:
            return sys.monitoring.DISABLE
        u = self._is_utype.get(code)
        if u is None:
            u = os.path.realpath(code.co_filename).startswith(_PREFIX)
            self._is_utype[code] = u
        if not u:
            return sys.monitoring.DISABLE
        self.count += 1
        if self.count > self.budget:
            self.last = f"{code.co_filename[len(_PREFIX):]}:{code.co_name}"
            self.active = False
            raise Hang(f"line budget exhausted in {self.last}")

    def run(self, fn, budget):
        """-> ('done', result-of-fn) | ('hang', frame); fn's own exceptions propagate"""
        self.install()
        mon = sys.monitoring
        self.count, self.budget, self.last = 0, budget, None
        self.active = True
        mon.set_events(TOOL, mon.events.LINE)
        mon.restart_events()
        try:
            try:
                return ("done", fn())
            finally:
                self.active = False
                mon.set_events(TOOL, 0)
        except Hang:
            return ("hang", self.last)


WATCH = LineBudget()
