"""C18 - the depth limit is exact and parse cost stays bounded.

Generated: recursive data-class declarations (child via direct field, Optional, List, Dict, Tuple, Union[N, int],
Union[int, N], mutual recursion) with max_depth in {None, 1..4}; inputs: a chain of depth D in 1..6 in which each
link sits at a drawn position (list index, dict key, union branch), optional siblings; cyclic inputs.  Cost
families: the same shapes scaled in depth, valid and with one invalid leaf at the bottom; every node carries a
leaf of a harness class whose registered converter increments a counter.
Oracle: (1) with max_depth = d: accepted <=> D <= d, for every position; cyclic input => ParseError whenever
max_depth is set.  (2) work (leaf conversions of one top-level call) <= L**2 + 8, L = leaves in the input (valid parses measure exactly L).
The (shape x position x D x max_depth) grid is enumerated exhaustively on every run.
"""
import itertools
import sys
import types

from hypothesis import strategies as st

from .. import oracle
from ..core import HarnessError

ID = "C18"
RULE = ("grid: shape x link position x chain depth D in 1..6 x max_depth in {None,1,2,3,4}, enumerated completely; random part: per-level positions, "
        "siblings and breadth drawn by Hypothesis; cost part: depth 1..7 (1..10 thorough) x {valid, invalid bottom leaf} x breadth. "
        "non-trivial = D within 1 of max_depth, or a cost case of depth >= 5; distinct = hash of the case")
ASSUMPTIONS = [
    "nesting depth of an input = number of data-class levels on the longest chain, the top-level instance counting as 1 (docs example: max_depth=3 refuses the 4th level)",
    "work = number of invocations of the converter registered for the harness class Leaf during one top-level call (deterministic, no wall clock)",
    "polynomial bound checked: work <= L**2 + 8 (valid parses measure exactly L, so 2**depth crosses the bound at depth 8)",
]
SHARDS = {"quick": 2, "thorough": 8}

SHAPES = ["direct", "opt", "list", "dict", "tuple", "union_first", "union_last", "mutual", "opt_list", "opt_dict", "union_int_list"]
LISTLIKE = ("list", "opt_list", "union_int_list")      # the child sits in a list
DICTLIKE = ("dict", "opt_dict")
UNIONLIKE = ("opt", "union_first", "union_last", "opt_list", "opt_dict", "union_int_list")   # the link goes through a union
POSITIONS = {"list": [0, 1, 2], "dict": ["", "k", "0"], "direct": [None], "opt": [None], "tuple": [None], "union_first": [None],
             "opt_list": [0, 1], "opt_dict": ["k", ""], "union_int_list": [0, 1],
             "union_last": [None], "mutual": [None]}

COUNT = [0]
BUDGET = [None]     # deterministic work budget (leaf conversions) of the running case


class WorkBudget(BaseException):
    """raised by the leaf converter when a case has done far more work than any bound allows (keeps a broken tree from running for minutes)"""



class Leaf:
    def __init__(self, v):
        self.v = v

    def __eq__(self, other):
        return isinstance(other, Leaf) and self.v == other.v

    def __hash__(self):
        return hash(self.v)


_registered = []


def ensure_leaf_converter():
    if _registered:
        return
    import utype

    @utype.register_transformer(Leaf)
    def to_leaf(transformer, data, t):
        COUNT[0] += 1
        if BUDGET[0] is not None and COUNT[0] > BUDGET[0]:
            raise WorkBudget()
        if isinstance(data, Leaf):
            return data
        if data == "bad":
            raise ValueError("bad leaf")
        return Leaf(data)
    _registered.append(to_leaf)


ANN = {
    "direct": ("'N'", "None"),
    "opt": ("Optional['N']", "None"),
    "list": ("List['N']", "utype.Field(default_factory=list)"),
    "dict": ("Dict[str, 'N']", "utype.Field(default_factory=dict)"),
    "tuple": ("Tuple[int, 'N']", "utype.Field(required=False)"),
    "opt_list": ("Optional[List['N']]", "None"),
    "opt_dict": ("Optional[Dict[str, 'N']]", "None"),
    "union_int_list": ("Union[int, List['N']]", "utype.Field(default_factory=list)"),
    "union_first": ("Union['N', int]", "0"),
    "union_last": ("Union[int, 'N']", "0"),
}
_mod_n = [0]


def declare(shape, max_depth, with_leaf=False, base="Schema", collect=False):
    """exec a fresh module declaring the recursive class(es); -> (module, top class)"""
    import utype
    ensure_leaf_converter()
    _mod_n[0] += 1
    name = f"vf_c18_m{_mod_n[0]}"
    mod = types.ModuleType(name)
    mod.__dict__.update({"utype": utype, "Leaf": Leaf})
    sys.modules[name] = mod
    oargs = ([f"max_depth={max_depth}"] if max_depth else []) + (["collect_errors=True"] if collect else [])
    opt = f"    __options__ = utype.Options({', '.join(oargs)})\n" if oargs else ""
    leaf = "    leaf: Leaf = None\n" if with_leaf else ""
    # class names are unique per declaration: typing caches Optional['N'] & co. process-wide, and utype stores the resolved
    # class on that shared ForwardRef object - two modules using the same class name would cross-talk (a C17 finding)
    n, m = f"N{_mod_n[0]}", f"M{_mod_n[0]}"
    if shape == "mutual":
        src = (f"from typing import *\nclass {n}(utype.{base}):\n{opt}    v: int = 0\n{leaf}    child: '{m}' = None\n"
               f"class {m}(utype.{base}):\n{opt}    v: int = 0\n{leaf}    child: '{n}' = None\n")
    else:
        ann, dflt = ANN[shape]
        src = f"from typing import *\nclass {n}(utype.{base}):\n{opt}    v: int = 0\n{leaf}    child: {ann.replace('N', n)} = {dflt}\n"
    exec(compile(src, name, "exec"), mod.__dict__)
    return mod, getattr(mod, n)


def undeclare(mod):
    from utype.parser import base
    for k in [k for k in base.__parsers__ if getattr(k, "__module__", None) == mod.__name__]:
        base.__parsers__.pop(k, None)
    sys.modules.pop(mod.__name__, None)


def chain(shape, D, positions, siblings=0, leaf=None, bottom_leaf=None, shared=False, bottom=None):
    """input of data-class nesting depth D; positions[i] = where level i+1 sits inside level i
    shared: the siblings of a level are ONE object used several times, and the deeper node itself appears twice (a DAG, no cycle)"""
    # bottom: what the innermost node is made of ("empty": {} - every field has a default, it is a node like any other)
    node = {} if bottom == "empty" else {"v": D}
    if leaf is not None:
        node["leaf"] = bottom_leaf if bottom_leaf is not None else leaf
    for level in range(D - 1, 0, -1):
        pos = positions[(level - 1) % len(positions)] if positions else None
        sib = {"v": 90 + level}
        if leaf is not None:
            sib["leaf"] = leaf
        if shape in LISTLIKE:
            p = pos if isinstance(pos, int) else 0
            items = [sib if shared else dict(sib) for _ in range(max(siblings, p))]
            items.insert(min(p, len(items)), node)
            if shared:
                items.append(node)
            child = items
        elif shape in DICTLIKE:
            child = {(pos if isinstance(pos, str) else "k"): node}
            for j in range(siblings):
                child[f"s{j}"] = sib if shared else dict(sib)
            if shared:
                child["again"] = node
        elif shape == "tuple":
            child = (level, node)
        else:
            child = node
        node = {"v": level, "child": child}
        if leaf is not None:
            node["leaf"] = leaf
    return node


def count_leaves(x):
    if isinstance(x, dict):
        return (1 if "leaf" in x else 0) + sum(count_leaves(v) for k, v in x.items() if k != "leaf")
    if isinstance(x, (list, tuple)):
        return sum(count_leaves(v) for v in x)
    return 0


def judge_depth(case):
    shape, D, d, positions = case["shape"], case["D"], case.get("max_depth"), case.get("positions") or [None]
    if shape not in SHAPES or not isinstance(D, int) or not 1 <= D <= 12:
        raise HarnessError("bad depth case")
    how = case.get("limit_from", "class")
    if how not in ("class", "runtime-override"):
        raise HarnessError("bad limit_from")
    # runtime-override: the class declares another limit (or none); Options(max_depth=d, override=True) passed to __from__ governs every level
    mod, N = declare(shape, d if how == "class" else case.get("class_limit"), base=case.get("base", "Schema"), collect=bool(case.get("collect")))
    try:
        if case.get("bottom") not in (None, "empty") or (case.get("bottom") and shape in ("union_first", "union_last", "union_int_list")):
            raise HarnessError("bad bottom")
        x = chain(shape, D, positions, siblings=case.get("siblings", 0), shared=bool(case.get("shared")), bottom=case.get("bottom"))
        entry = case.get("entry", "from")
        if entry not in ("from", "transform", "param") or (entry != "from" and how != "class"):
            raise HarnessError("bad entry")
        if entry == "transform":
            # the same class reached through the type-level entry point: the nesting depth of the VALUE is what counts
            import utype
            out = oracle.outcome(utype.type_transform, x, N)
        elif entry == "param":
            import utype

            def fn(n: N):
                return n
            out = oracle.outcome(utype.parse(fn), x)
        elif how == "class":
            out = oracle.outcome(N.__from__, x)
        else:
            import utype
            ro = dict(override=True, **({"collect_errors": True} if case.get("collect") else {}))
            out = oracle.outcome(N.__from__, x, utype.Options(max_depth=d, **ro) if d else utype.Options(**ro))
        if out[0] in ("other", "hang"):
            return {"status": "other", "fails": []}
        want = d is None or D <= d
        fails = []
        pos = ",".join(repr(p) for p in positions)
        if (out[0] == "ok") != want:
            kind = "accepts-deeper-than-max_depth" if out[0] == "ok" else "rejects-within-max_depth"
            falsy = any(p in (0, "") for p in positions)
            fails.append((f"depth/{kind}/{shape}/{'falsy-position' if falsy else 'position'}{'' if how == 'class' else '/' + how}{'/shared-subtrees' if case.get('shared') else ''}{'' if entry == 'from' else '/entry:' + entry}",
                          {"D": D, "max_depth": d, "positions": pos, "limit_from": how, "class_limit": case.get("class_limit"),
                           "error": None if out[0] == "ok" else str(out[1])[:200]}))
        return {"status": "accepted" if out[0] == "ok" else "rejected", "fails": fails}
    finally:
        undeclare(mod)


def judge_cycle(case):
    shape, d, kind = case["shape"], case.get("max_depth"), case.get("cycle", "self")
    if shape not in SHAPES or not d:
        raise HarnessError("bad cycle case")
    mod, N = declare(shape, d, with_leaf=True, collect=bool(case.get("collect")))
    try:
        a = {"v": 1, "leaf": "ok"}
        b = {"v": 2, "leaf": "ok"}

        def link(parent, child):
            if shape in LISTLIKE:
                parent["child"] = [child]
            elif shape in DICTLIKE:
                parent["child"] = {"k": child}
            elif shape == "tuple":
                parent["child"] = (1, child)
            else:
                parent["child"] = child
        if kind == "self":
            link(a, a)
        elif kind == "two":
            link(a, b)
            link(b, a)
        elif kind == "array-self":
            # a cycle made of arrays only, where a nested value is expected (no mapping, hence no data-class level, on the cycle)
            loop = []
            loop.append(loop)
            link(a, loop)
        elif kind == "array-two":
            inner = []
            outer = [(inner,)]
            inner.append(outer)
            link(a, outer)
        else:
            raise HarnessError("bad cycle kind")
        COUNT[0] = 0
        mult = 3 ** d if shape in UNIONLIKE else 1    # known retry factor of the union stages (KF-C18-03)
        BUDGET[0] = 100 * ((d + 1) ** 2 + 8) * mult
        try:
            out = oracle.outcome(N.__from__, a, backstop=20 if not kind.startswith("array") else 6)
        except WorkBudget:
            out = ("perr", None)      # cut by the harness: reported through the work bound below
        finally:
            BUDGET[0] = None
        w = COUNT[0]
        fails = []
        if w > ((d + 1) ** 2 + 8) * mult:
            # the limit cuts a cyclic input after d levels: the work cannot exceed what d levels hold
            fails.append((f"cycle/work-goes-on-beyond-the-depth-limit/{shape}{'/collect_errors' if case.get('collect') else ''}", {"max_depth": d, "work": w, "cycle": kind}))
        if out[0] == "ok":
            fails.append((f"cycle/accepted-with-max_depth/{shape}", {"max_depth": d, "cycle": kind}))
        elif out[0] in ("other", "hang"):
            e = out[1]
            fails.append((f"cycle/{type(e).__name__ if out[0] == 'other' else 'hang'}-instead-of-ParseError/{shape}", {"max_depth": d, "cycle": kind}))
        return {"status": "rejected" if out[0] == "perr" else out[0], "fails": fails}
    finally:
        undeclare(mod)


def judge_cost(case):
    shape, D, bad, breadth = case["shape"], case["D"], case.get("bad", False), case.get("breadth", 0)
    if shape not in SHAPES or not isinstance(D, int) or not 1 <= D <= 12 or breadth > 4:
        raise HarnessError("bad cost case")
    mod, N = declare(shape, None, with_leaf=True, base=case.get("base", "Schema"))
    try:
        x = chain(shape, D, case.get("positions") or [1 if shape in LISTLIKE else "k" if shape in DICTLIKE else None], siblings=breadth,
                  leaf="ok", bottom_leaf="bad" if bad else "ok")
        L = count_leaves(x)
        COUNT[0] = 0
        BUDGET[0] = max(20000, 200 * (L * L + 8))
        try:
            out = oracle.outcome(N.__from__, x, backstop=120)
        except WorkBudget:
            return {"status": "hang", "fails": [(f"cost/superpolynomial-work/{shape}/{'invalid-leaf' if bad else 'valid'}",
                                                 {"D": D, "L": L, "work": f"> {BUDGET[0]} (cut by the harness)", "bound": L * L + 8})], "work": COUNT[0], "L": L}
        finally:
            BUDGET[0] = None
        w = COUNT[0]
        if out[0] in ("other", "hang"):
            if out[0] == "hang":
                return {"status": "hang", "fails": [(f"cost/no-result-within-the-backstop/{shape}/{'invalid-leaf' if bad else 'valid'}", {"D": D, "L": L, "work_so_far": w})], "work": w, "L": L}
            return {"status": "other", "fails": [], "work": w, "L": L}
        fails = []
        if (out[0] == "ok") == bad:
            fails.append((f"cost/verdict/{shape}", {"D": D, "bad": bad, "got": out[0]}))
        if w > L * L + 8:
            fails.append((f"cost/superpolynomial-work/{shape}/{'invalid-leaf' if bad else 'valid'}", {"D": D, "L": L, "work": w, "bound": L * L + 8}))
        return {"status": out[0], "fails": fails, "work": w, "L": L}
    finally:
        undeclare(mod)


def run_case(case):
    try:
        part = case["part"]
    except (KeyError, TypeError):
        raise HarnessError("malformed case")
    try:
        if part == "depth":
            return judge_depth(case)
        if part == "cycle":
            return judge_cycle(case)
        if part == "cost":
            return judge_cost(case)
    except (KeyError, TypeError, IndexError) as e:
        raise HarnessError(f"malformed case: {e}")
    raise HarnessError("bad part")


def judge(case):
    return run_case(case)["fails"]


NO_SHRINK = True


def campaign(ctx):
    def body(case):
        r = run_case(case)
        ctx.label(f"{case['part']}_{r['status']}")
        ctx.label(f"shape_{case['shape']}")
        if case["part"] == "depth":
            d = case.get("max_depth")
            if d is not None and abs(case["D"] - d) <= 1:
                ctx.nt(case)
                ctx.sample("depth-boundary", case)
        elif case["part"] == "cost":
            ctx.extra.setdefault("max_work_seen", 0)
            if case["D"] >= 5:
                ctx.nt(case)
                ctx.sample("cost", dict(case, work=r.get("work"), leaves=r.get("L")))
            if r.get("work") is not None:
                ctx.label("work_le_L" if r["work"] <= r["L"] else "work_le_L2" if r["work"] <= r["L"] ** 2 + 8 else "work_gt_L2")
        else:
            ctx.nt(case)
            ctx.sample("cycle", case)
        ctx.fail_all(r["fails"], case)

    # 1. exhaustive grid (split over the shards)
    grid = []
    for shape in SHAPES:
        for pos in POSITIONS[shape]:
            for D in range(1, 7):
                for d in (None, 1, 2, 3, 4):
                    grid.append({"part": "depth", "shape": shape, "D": D, "max_depth": d, "positions": [pos]})
        # (beside an int / list member of a union the empty mapping is no node at all: int({}) is 0 - those shapes are left out)
        for bottom in (("empty",) if shape not in ("union_first", "union_last", "union_int_list") else ()):
            for D in range(1, 6):
                for d in (1, 2, 3, 4):
                    grid.append({"part": "depth", "shape": shape, "D": D, "max_depth": d, "positions": [POSITIONS[shape][0]], "bottom": bottom})
        for entry in ("transform", "param"):
            for D in range(1, 5):
                for d in (1, 2, 3):
                    grid.append({"part": "depth", "shape": shape, "D": D, "max_depth": d, "positions": [POSITIONS[shape][0]], "entry": entry})
        for d in (1, 2, 4):
            for cyc in ("self", "two"):
                grid.append({"part": "cycle", "shape": shape, "max_depth": d, "cycle": cyc})
                grid.append({"part": "cycle", "shape": shape, "max_depth": d, "cycle": cyc, "collect": True})
            if d == 2:
                for cyc in ("array-self", "array-two"):
                    grid.append({"part": "cycle", "shape": shape, "max_depth": d, "cycle": cyc})
        for D in range(1, 6):
            for d in (1, 2, 3):
                grid.append({"part": "depth", "shape": shape, "D": D, "max_depth": d, "positions": [POSITIONS[shape][-1]], "collect": True})
        if shape in LISTLIKE + DICTLIKE:
            # one object used in several places of a non-cyclic input (siblings, and the deeper node twice): depth counts as usual
            for D in range(1, 5):
                for d in (2, 3, 4):
                    grid.append({"part": "depth", "shape": shape, "D": D, "max_depth": d, "positions": [POSITIONS[shape][0]], "siblings": 2, "shared": True})
    for shape in SHAPES:
        for pos in POSITIONS[shape][:2]:
            for D in range(1, 6):
                for d, c in ((1, None), (2, None), (3, None), (2, 4), (4, 2), (3, 1)):
                    grid.append({"part": "depth", "shape": shape, "D": D, "max_depth": d, "positions": [pos], "limit_from": "runtime-override", "class_limit": c})
    maxD = 12 if ctx.thorough else 9
    for shape in SHAPES:
        for D in range(1, maxD + 1):
            for bad in (False, True):
                if shape in UNIONLIKE and bad and D > (8 if ctx.thorough else 7):
                    continue   # known 3**d family (KF-C18-03): deeper only costs time
                grid.append({"part": "cost", "shape": shape, "D": D, "bad": bad, "breadth": 0})
        for D in (3, 5):
            for bad in (False, True):
                if shape in LISTLIKE + DICTLIKE:
                    grid.append({"part": "cost", "shape": shape, "D": D, "bad": bad, "breadth": 3})
    n = 0
    for i, case in enumerate(grid):
        if i % ctx.nshards != ctx.shard:
            continue
        ctx.ev()
        n += 1
        body(case)
    ctx.extra["grid_cases"] = n
    ctx.extra["grid_exhaustive"] = True

    # 2. random compositions
    rand = st.one_of(
        st.fixed_dictionaries({"part": st.just("depth"), "shape": st.sampled_from(SHAPES), "D": st.integers(1, 6),
                               "max_depth": st.sampled_from([None, 1, 2, 3, 4, 5]), "siblings": st.integers(0, 2), "shared": st.booleans(),
                               "base": st.sampled_from(["Schema", "Schema", "DataClass"]),
                               "positions": st.lists(st.sampled_from([0, 1, 2, "", "k", "0", "x y"]), min_size=1, max_size=5),
                               "limit_from": st.sampled_from(["class", "class", "runtime-override"]), "class_limit": st.sampled_from([None, 1, 3, 5]),
                               "collect": st.booleans()}),
        st.fixed_dictionaries({"part": st.just("cost"), "shape": st.sampled_from(SHAPES), "D": st.integers(1, 9), "bad": st.booleans(),
                               "breadth": st.integers(0, 3), "base": st.sampled_from(["Schema", "DataClass"])}),
    )
    ctx.run_given(rand, body, max_examples=ctx.n(1500, 8000))
