"""C16 - converter resolution is a pure function of the registrations made so far.

Model-based: a history of register(...) / use(...) operations is run against a registry and against a
cache-free reference model (matching registrations -> highest priority -> most recent).  Three
registries: a fresh TypeRegistry(cache=True), the real transformer registry (observed through
type_transform, a Rule and a Schema declared *after* the registration) and the real encoder registry
(observed through json.dumps(cls=JSONEncoder)).
"""
import json

from hypothesis import strategies as st
from hypothesis.stateful import RuleBasedStateMachine, rule

from ..core import HarnessError

ID = "C16"
RULE = ("history of register/use operations over the class hierarchy A,B(A),C(B),D(A),E(metaclass=M),F(attr); "
        "non-trivial = the history contains a registration made after a use of a class that this registration "
        "matches, or registrations with >= 2 distinct priorities matching one class that is then used; "
        "distinct = canonical hash of the whole operation list")
ASSUMPTIONS = [
    "reference model: among registrations whose own criteria match the class, highest priority wins, most recent wins ties",
    "types compiled before a registration (Rule subclass / field declared earlier) are not asserted to see it (source comment says so)",
    "harness snapshots and restores the two global registries between cases (hygiene, not observation)",
]
SHARDS = {"quick": 4, "thorough": 16}

CLASSES = ["A", "B", "C", "D", "E", "F"]
DETECTORS = {"dB": ["B", "C"], "dAF": ["A", "F"], "dAll": CLASSES, "dNone": []}
VIAS = {"fresh": ["resolve"], "transformer": ["type_transform", "rule", "schema", "resolve"],
        "encoder": ["dumps", "resolve"]}


def make_hierarchy():
    class M(type):
        pass

    class A:
        pass

    class B(A):
        pass

    class C(B):
        pass

    class D(A):
        pass

    class E(metaclass=M):
        pass

    class F:
        marker = 1

    return {"A": A, "B": B, "C": C, "D": D, "E": E, "F": F, "M": M}


def model_matches(reg, name, H):
    cls = H[name]
    if reg.get("det") is not None:
        return name in DETECTORS[reg["det"]]
    if reg["classes"]:
        targets = tuple(H[c] for c in reg["classes"])
        if reg["sub"]:
            if not issubclass(cls, targets):
                return False
        elif cls not in targets:
            return False
    if reg["meta"] and not isinstance(cls, H["M"]):
        return False
    if reg["attr"] and not hasattr(cls, "marker"):
        return False
    return True


def model_expected(regs, name, H):
    """index into regs of the winning registration or None"""
    best = None
    for i, r in enumerate(regs):
        if not model_matches(r, name, H):
            continue
        if best is None or r["prio"] >= regs[best]["prio"]:
            best = i
    return best


class Probe:
    pass


class Runner:
    """executes one history against the real registry and the model"""

    def __init__(self, kind):
        from utype.utils.base import TypeRegistry
        from utype.utils.transform import TypeTransformer
        from utype.utils import encode
        self.kind = kind
        self.H = make_hierarchy()
        self.regs = []
        self.used_at = {}  # class name -> list of len(regs) at use time
        self._saved = None
        if kind == "fresh":
            self.registry = TypeRegistry("vf", cache=True)
        elif kind == "transformer":
            self.registry = TypeTransformer.registry
        elif kind == "encoder":
            self.registry = encode.encoder_registry
        else:
            raise HarnessError(f"bad registry kind {kind}")
        if kind != "fresh":
            self._saved = (list(self.registry._registry), dict(self.registry._cache))

    def close(self):
        if self._saved is not None:
            self.registry._registry[:] = self._saved[0]
            self.registry._cache.clear()
            self.registry._cache.update(self._saved[1])

    def register(self, reg):
        idx = len(self.regs)
        tag = f"r{idx}"
        if self.kind == "transformer":
            def fn(transformer, data, t, _tag=tag):
                return ("tag", _tag)
        else:
            def fn(*a, _tag=tag):
                return "tag:" + _tag
        kw = dict(allow_subclasses=reg["sub"], priority=reg["prio"])
        if reg["attr"]:
            kw["attr"] = "marker"
        if reg["meta"]:
            kw["metaclass"] = self.H["M"]
        if reg.get("det") is not None:
            names = set(DETECTORS[reg["det"]])
            Hn = {v: k for k, v in self.H.items()}
            kw["detector"] = lambda c, _n=names: Hn.get(c) in _n
        self.registry.register(*[self.H[c] for c in reg["classes"]], **kw)(fn)
        self.regs.append(reg)

    def observe(self, name, via):
        """-> index of the registration actually used, or None"""
        import utype
        cls = self.H[name]
        got = None
        try:
            if via == "resolve":
                f = self.registry.resolve(cls)
                got = f(None, Probe(), cls) if f else None
            elif via == "type_transform":
                got = utype.type_transform(Probe(), cls)
            elif via == "rule":
                R = utype.Rule.annotate(cls)
                got = R(Probe())
            elif via == "schema":
                S = type("S", (utype.Schema,), {"__annotations__": {"a": cls}})
                got = S(a=Probe())["a"]
            elif via == "dumps":
                got = json.loads(json.dumps({"k": cls()}, cls=utype.JSONEncoder))["k"]
            else:
                raise HarnessError(f"bad via {via}")
        except HarnessError:
            raise
        except Exception:
            got = None
        if isinstance(got, tuple) and len(got) == 2 and got[0] == "tag":
            return int(got[1][1:])
        if isinstance(got, str) and got.startswith("tag:r"):
            return int(got[5:])
        return None

    def check_use(self, name, via):
        exp = model_expected(self.regs, name, self.H)
        act = self.observe(name, via)
        prior_uses = self.used_at.setdefault(name, [])
        res = None
        if act != exp:
            if exp is not None and act is None:
                reason = "registration-not-applied"
            elif exp is None:
                reason = "spurious-match"
            elif not model_matches(self.regs[act], name, self.H):
                reason = "non-matching-registration-used"
            elif self.regs[act]["prio"] < self.regs[exp]["prio"]:
                reason = "lower-priority-wins"
            elif self.regs[act]["prio"] == self.regs[exp]["prio"]:
                reason = "older-wins-tie"
            else:
                reason = "other"
            stale = exp is not None and any(u <= exp for u in prior_uses)
            sig = f"{self.kind}/{reason}" + ("/after-use" if stale else "")
            res = (sig, {"class": name, "via": via, "expected": exp, "actual": act,
                         "regs": self.regs})
        prior_uses.append(len(self.regs))
        return res

    def nontrivial(self, name):
        """was this use preceded by an interesting history for the class?"""
        matching = [i for i, r in enumerate(self.regs) if model_matches(r, name, self.H)]
        if len({self.regs[i]["prio"] for i in matching}) >= 2:
            return True
        prior = self.used_at.get(name, [])
        return any(any(u <= i for u in prior) for i in matching)


def run_ops(kind, ops, stop_at_first=True):
    r = Runner(kind)
    fails = []
    nt = False
    try:
        for op in ops:
            if op[0] == "reg":
                r.register(op[1])
            elif op[0] == "use":
                name, via = op[1], op[2]
                if via not in VIAS[kind] or name not in CLASSES:
                    raise HarnessError("bad use op")
                if r.nontrivial(name):
                    nt = True
                f = r.check_use(name, via)
                if f:
                    fails.append(f)
                    if stop_at_first:
                        break
            else:
                raise HarnessError(f"bad op {op}")
    finally:
        r.close()
    return fails, nt


def judge(case):
    try:
        kind, ops = case["registry"], case["ops"]
        for op in ops:
            if op[0] == "reg":
                d = op[1]
                if not (d.get("det") is not None or d["classes"] or d["attr"] or d["meta"]):
                    raise HarnessError("empty registration")
    except (KeyError, TypeError, IndexError):
        raise HarnessError("malformed case")
    fails, _ = run_ops(kind, ops, stop_at_first=False)
    # one failure per signature is enough
    seen, out = set(), []
    for s, d in fails:
        if s not in seen:
            seen.add(s)
            out.append((s, d))
    return out


# -- generation -----------------------------------------------------------------------------------

reg_strategy = st.fixed_dictionaries({
    "classes": st.lists(st.sampled_from(CLASSES), max_size=2, unique=True),
    "sub": st.booleans(),
    "prio": st.sampled_from([-1, 0, 0, 0, 1, 2]),
    "attr": st.sampled_from([False, False, False, True]),
    "meta": st.sampled_from([False, False, False, True]),
    "det": st.sampled_from([None, None, None, None, "dB", "dAF", "dAll", "dNone"]),
}).filter(lambda d: d["det"] is not None or d["classes"] or d["attr"] or d["meta"])


def campaign(ctx):
    kinds = ["fresh", "transformer", "encoder"]

    def make_machine(kind):
        class RegistryMachine(RuleBasedStateMachine):
            def __init__(self):
                super().__init__()
                self.r = Runner(kind)
                self.log = []
                self.dead = False
                self.nt = False
                ctx.ev()

            def teardown(self):
                self.r.close()
                case = {"registry": kind, "ops": self.log}
                if self.nt:
                    ctx.nt(case)
                    ctx.label("nontrivial_histories")
                    ctx.sample(f"{kind}-nontrivial", case)
                ctx.label(f"histories_{kind}")
                ctx.label("ops", len(self.log))

            @rule(reg=reg_strategy)
            def register(self, reg):
                if self.dead:
                    return
                self.log.append(["reg", reg])
                self.r.register(reg)
                ctx.label("op_register")

            @rule(name=st.sampled_from(CLASSES), via=st.sampled_from(VIAS[kind]))
            def use(self, name, via):
                self._use(name, via)

            def _use(self, name, via):
                if self.dead:
                    return
                self.log.append(["use", name, via])
                if self.r.nontrivial(name):
                    self.nt = True
                    ctx.label("use_after_interesting_history")
                ctx.label(f"op_use_{via}")
                f = self.r.check_use(name, via)
                if f:
                    self.dead = True
                    ctx.fail(f[0], {"registry": kind, "ops": list(self.log)}, f[1])

            @rule()
            def scan(self):
                for name in CLASSES:
                    self._use(name, VIAS[kind][0])

        RegistryMachine.__name__ = f"RegistryMachine_{kind}"
        return RegistryMachine

    for kind in kinds:
        ctx.run_machine(make_machine(kind), max_examples=ctx.n(150, 1500), steps=ctx.n(20, 40))
    # short histories enumerated completely (seed independent): every class used (hence cached), then one registration on any
    # class, then every class used again; and a registration repeated after another one of equal priority
    def reg(c, sub=True, prio=0):
        return ["reg", {"classes": [c], "sub": sub, "prio": prio, "attr": False, "meta": False, "det": None}]
    idx = 0
    for kind in kinds:
        via = VIAS[kind][0]
        uses = [["use", c, via] for c in CLASSES]
        histories = []
        for y in CLASSES:
            for sub in (True, False):
                for prio in (0, 1):
                    histories.append([reg("A")] + uses + [reg(y, sub, prio)] + uses)
        for x in CLASSES:
            for y in CLASSES:
                if x != y:
                    histories.append([reg(x), reg(y), reg(x)] + uses)
                    histories.append([reg(x, True, 0), reg(y, True, 1), reg(x, True, 1)] + uses)
        for ops in histories:
            idx += 1
            if idx % ctx.nshards != ctx.shard:
                continue
            case = {"registry": kind, "ops": ops}
            ctx.ev()
            ctx.nt(case)
            ctx.fail_all(judge(case), case)
    ctx.extra["short_histories_exhaustive"] = True
