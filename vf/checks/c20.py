"""C20 - concurrent use is safe, including the first use of a type.

Generated: thread SCHEDULES over first-use workloads.  A harness-owned scheduler runs worker threads one at a time;
each thread has a sys.settrace hook that counts 'line' events in the library's parser / registry files, and a
schedule is a list of preemption points (thread, k-th traced line event) at which control passes to the next thread.
Workloads (each on a FRESH declaration exec-ed in a new module, registry caches emptied): W1 first calls on data
classes whose references are still unresolved (with Field constraints on the referenced type, nested generics);
W6 two threads decorate one module-level function at the same time; W2 first calls on a decorated function with forward-referenced parameters, *args and **kwargs; W3 concurrent
conversions to types absent from the registry cache (fresh Enum / data class / Rule); W4 first use of a subclass
while the base class is first used.
Oracle: every call returns what the same call returns when all calls run one after the other on a fresh
declaration; no internal error.  One-preemption schedules are ENUMERATED EXHAUSTIVELY for the quick workloads;
two- and three-preemption schedules are drawn by Hypothesis (replayable lists).
"""
import os
import sys
import threading
import types

from hypothesis import strategies as st

from .. import oracle
from ..core import HarnessError, REPO

ID = "C20"
RULE = ("(workload, schedule = list of (thread, k-th traced line event) preemption points); 1-preemption schedules enumerated completely per workload "
        "(both start orders), 2..3-preemption schedules sampled; non-trivial = at least one preemption actually transferred control inside the watched "
        "library code while the preempted call was unfinished (measured by the scheduler); distinct = hash of (workload, schedule)")
ASSUMPTIONS = [
    "CPython with the GIL; preemption at source-line granularity in utype/parser/*.py, utype/utils/base.py, utype/utils/transform.py, utype/schema.py; <= 3 threads, <= 3 preemptions",
    "a thread that blocks on a real lock held by a paused thread is detected by a 60 ms no-progress timeout; the paused threads are then released (the schedule is labelled, its outcome still judged)",
    "reference outcome = the same calls run sequentially on a fresh declaration of the same source",
]
SHARDS = {"quick": 8, "thorough": 16}    # schedules that run into the real lock wait 60 ms each: sleep-bound, so more shards than cores are fine
NO_SHRINK = True

_WATCH = tuple(os.path.join(os.path.realpath(REPO), "utype", p) for p in ("parser" + os.sep, "utils" + os.sep + "base.py", "utils" + os.sep + "transform.py", "schema.py"))

W1 = '''
import utype
from typing import *
from utype import Schema, Field, Rule, Options

class A(Schema):
    v: int = 0
    b: 'B' = None
    bs: List['B'] = Field(default_factory=list)
    bm: Dict[str, 'B'] = Field(default_factory=dict)
    p: 'P' = Field(lt=10, default=1)
    me: Optional['A'] = None

class B(Schema):
    w: int = 0
    a: Optional['A'] = None
    ps: List['P'] = Field(default_factory=list)

class P(int, Rule):
    gt = 0
CALLS = [
    lambda: A.__from__({"v": "1", "b": {"w": "2", "a": {"v": 3}}, "bs": [{"w": 4}], "p": "5"}),
    lambda: A.__from__({"bm": {"k": {"ps": ["6", 7]}}, "me": {"p": 9}}),
    lambda: B.__from__({"a": {"p": 11}}),
]
'''
W2 = '''
import utype
from typing import *
from utype import Schema, Field, Rule, Param

@utype.parse
def f(a: 'T', b: 'Q' = 1, *rest: 'T', k: Optional['T'] = None, **kw: 'T') -> 'T':
    a.q = a.q + b
    return a

@utype.parse
def g(items: List['T'], n: 'Q' = 1):
    return [items, n]

class T(Schema):
    x: int
    q: 'Q' = 2

class Q(int, Rule):
    ge = 0
CALLS = [     # the first two calls go to the SAME function (two threads share one parser), both with positional arguments
    lambda: f({"x": "1"}, "3", {"x": 2, "q": "3"}, k={"x": 4}, z={"x": "5"}),
    lambda: f({"x": "8"}, 5),
    lambda: g([{"x": 6}, {"x": "7", "q": -1}]),
]
'''
W3 = '''
import utype, enum, decimal, datetime, uuid
from typing import *
from utype import Schema, Rule

class Shade(enum.Enum):
    DARK = 1
    LIGHT = 2

class Money(decimal.Decimal, Rule):
    decimal_places = 2

class Row(Schema):
    id: int
    when: datetime.datetime = None
    tag: uuid.UUID = None

class MyInt(int):
    pass
CALLS = [
    lambda: (utype.type_transform("1", Shade), utype.type_transform("2.5", Money), utype.type_transform({"id": "3"}, Row)),
    lambda: (utype.type_transform({"id": 4, "when": "2020-01-02T03:04:05"}, Row), utype.type_transform(2, Shade), utype.type_transform("7", MyInt)),
    lambda: (utype.type_transform("9", MyInt), utype.type_transform([1, "2"], List[MyInt]) if False else utype.type_transform("3.10", Money)),
]
'''
W4 = '''
import utype
from typing import *
from utype import Schema, Field, Options

class Base(Schema):
    __options__ = Options(case_insensitive=True)
    id: int
    kids: List['Sub'] = Field(default_factory=list)

class Sub(Base):
    name: str = Field(max_length=5, default='')
    parent: Optional['Base'] = None
CALLS = [
    lambda: Sub.__from__({"ID": "1", "name": "ab", "parent": {"id": 2, "kids": [{"id": "3"}]}}),
    lambda: Base.__from__({"id": 4, "kids": [{"Id": 5, "NAME": "c"}]}),
    lambda: Sub.__from__({"id": 6, "name": "toolong"}),
]
'''
W5 = '''
import utype
from typing import *
from utype import Schema, Field

class Base(Schema):
    id: int
    nxt: Optional['Leaf'] = None
    many: List['Leaf'] = Field(default_factory=list)

class Sub(Base):
    x: int = 0

class Leaf(Schema):
    w: int = Field(ge=0)
CALLS = [     # two threads make the first calls on the SAME subclass, whose inherited references the base class has to resolve
    lambda: Sub.__from__({"id": "1", "nxt": {"w": "2"}, "many": [{"w": 3}]}),
    lambda: Sub.__from__({"id": 4, "x": "5", "many": [{"w": "6"}, {"w": -1}]}),
    lambda: Base.__from__({"id": 7, "nxt": {"w": 8}}),
]
'''
W6 = '''
import utype
from typing import *
from utype import Schema, Rule

def h(a: 'T', n: 'Q' = 1) -> 'T':
    a.q = a.q + n
    return a

class T(Schema):
    x: int
    q: 'Q' = 2

class Q(int, Rule):
    ge = 0
CALLS = [     # two threads DECLARE (decorate) the same module-level function at the same time, each calls its own wrapper
    lambda: utype.parse(h)({"x": "1"}, "3"),
    lambda: utype.parse(h)({"x": "8", "q": 4}),
    lambda: utype.parse(h)({"x": 5}, -1),
]
'''
WORKLOADS = {"W1": W1, "W2": W2, "W3": W3, "W4": W4, "W5": W5, "W6": W6}
_n = [0]


def fresh(wname):
    _n[0] += 1
    name = f"vf_c20_{wname}_{_n[0]}"
    mod = types.ModuleType(name)
    sys.modules[name] = mod
    exec(compile(WORKLOADS[wname], name, "exec"), mod.__dict__)
    # converter lookups must start cold
    try:
        from utype.utils.transform import TypeTransformer
        from utype.utils.encode import encoder_registry
        for reg in (TypeTransformer.registry, encoder_registry):
            cache = getattr(reg, "_cache", None)
            if isinstance(cache, dict):
                cache.clear()
    except Exception:
        pass
    return mod


def discard(mod):
    from utype.parser import base
    for k in [k for k in base.__parsers__ if getattr(k, "__module__", None) == mod.__name__]:
        base.__parsers__.pop(k, None)
    sys.modules.pop(mod.__name__, None)


def describe(out):
    import json
    from .. import codec
    if out[0] == "ok":
        return ("ok", json.dumps(codec.encode(oracle.plain(out[1])), sort_keys=True, default=repr))
    if out[0] == "perr":
        from .c06 import kinds_of
        return ("perr", sorted(map(repr, kinds_of(out[1]))))
    if out[0] == "other":
        e = out[1]
        return ("other", type(e).__name__, str(e)[:160], oracle.utype_frame(e))
    return tuple(out)


def plain_outcome(fn):
    """oracle.outcome without the SIGALRM backstop (signals only work in the main thread)"""
    PE = oracle.perr_cls()
    try:
        return ("ok", fn())
    except PE as e:
        return ("perr", e)
    except Exception as e:
        return ("other", e)


class Scheduler:
    """runs fns[i] in thread i, one at a time; schedule = [(thread, k), ...] preemption points"""

    def __init__(self, fns, schedule, start=0):
        self.fns = fns
        self.n = len(fns)
        self.points = {}
        for t, k in schedule:
            self.points.setdefault(t, set()).add(k)
        self.count = [0] * self.n
        self.go = [threading.Event() for _ in range(self.n)]
        self.done = [False] * self.n
        self.results = [None] * self.n
        self.progress = threading.Event()
        self.transfers = 0
        self.transfers_mid_call = 0
        self.released_all = False
        self.start = start
        self.lock = threading.Lock()

    def _trace(self, i):
        def local(frame, event, arg):
            if event == "line":
                self.count[i] += 1
                if self.count[i] in self.points.get(i, ()):
                    self._yield(i)
            return local

        def glob(frame, event, arg):
            if event == "call" and frame.f_code.co_filename.startswith(_WATCH):
                return local
            return None
        return glob

    def _next(self, i):
        for d in range(1, self.n + 1):
            j = (i + d) % self.n
            if j != i and not self.done[j]:
                return j
        return None

    def _yield(self, i):
        if self.released_all:
            return
        j = self._next(i)
        if j is None:
            return
        self.transfers += 1
        self.transfers_mid_call += 1
        self.go[i].clear()
        self.go[j].set()
        self.progress.set()
        self.go[i].wait()

    def _worker(self, i):
        self.go[i].wait()
        sys.settrace(self._trace(i))
        try:
            self.results[i] = plain_outcome(self.fns[i])
        finally:
            sys.settrace(None)
            self.done[i] = True
            j = self._next(i)
            if j is not None and not self.released_all:
                self.go[j].set()
            self.progress.set()

    def run(self):
        threads = [threading.Thread(target=self._worker, args=(i,), daemon=True) for i in range(self.n)]
        for t in threads:
            t.start()
        self.go[self.start].set()
        import time
        last = -1
        stall = 0
        while not all(self.done):
            self.progress.wait(0.02)
            self.progress.clear()
            snap = (tuple(self.count), tuple(self.done))
            if snap == last:
                stall += 1
            else:
                stall = 0
            last = snap
            if stall >= 3 and not self.released_all:
                # the running thread is blocked (a real lock held by a paused thread): release everybody
                self.released_all = True
                for e in self.go:
                    e.set()
            if stall >= 3000:
                break
        for t in threads:
            t.join(timeout=1)
        return self.results


def run_schedule(wname, schedule, start, nthreads):
    if wname not in WORKLOADS:
        raise HarnessError("bad workload")
    ref_mod = fresh(wname)
    try:
        ref = [describe(oracle.outcome(c)) for c in ref_mod.CALLS[:nthreads]]
    finally:
        discard(ref_mod)
    mod = fresh(wname)
    try:
        s = Scheduler(list(mod.CALLS[:nthreads]), schedule, start)
        res = s.run()
        got = [describe(r) if r is not None else ("unfinished",) for r in res]
    finally:
        discard(mod)
    return ref, got, s


def run_case(case):
    try:
        wname, schedule, start, nthreads = case["workload"], case["schedule"], case.get("start", 0), case.get("threads", 2)
    except (KeyError, TypeError):
        raise HarnessError("malformed case")
    if nthreads not in (2, 3) or start not in range(nthreads) or not isinstance(schedule, list) or len(schedule) > 4:
        raise HarnessError("bad schedule")
    for p in schedule:
        if not (isinstance(p, list) and len(p) == 2 and p[0] in range(nthreads) and isinstance(p[1], int) and p[1] > 0):
            raise HarnessError("bad preemption point")
    ref, got, s = run_schedule(wname, [tuple(p) for p in schedule], start, nthreads)
    fails = []
    for i, (r, g) in enumerate(zip(ref, got)):
        if r != g:
            kind = g[0]
            what = f"{g[1]}@{g[3]}" if kind == "other" else kind
            fails.append((f"{wname}/call-outcome-differs-from-running-alone/{r[0]}->{what}", {"call": i, "alone": r, "concurrent": g, "schedule": schedule, "start": start,
                                                                                                    "released_all": s.released_all}))
    return {"status": "ok", "fails": fails[:2], "transfers": s.transfers, "released_all": s.released_all, "counts": list(s.count)}


def judge(case):
    return run_case(case)["fails"]


def measure(wname, nthreads):
    """line events each call needs when run alone as the FIRST call (its preemption positions)"""
    out = []
    for i in range(nthreads):
        mod = fresh(wname)
        try:
            s = Scheduler([mod.CALLS[i]], [], 0)
            s.run()
            out.append(s.count[0])
        finally:
            discard(mod)
    return out


def measure_funcs(wname, nthreads):
    """per call (run alone, first): the function name of every traced line event, in order"""
    out = []
    for i in range(nthreads):
        mod = fresh(wname)
        try:
            s = Scheduler([mod.CALLS[i]], [], 0)
            names = []

            def mk(_i, s=s, names=names):
                def local(frame, event, arg):
                    if event == "line":
                        s.count[0] += 1
                        names.append(frame.f_code.co_name + "@" + os.path.basename(frame.f_code.co_filename))
                    return local

                def glob(frame, event, arg):
                    if event == "call" and frame.f_code.co_filename.startswith(_WATCH):
                        return local
                    return None
                return glob
            s._trace = mk
            s.run()
            out.append(names)
        finally:
            discard(mod)
    return out


GATE_FUNCS = ("resolve_forward_refs@base.py",)                      # where first calls are serialised (BaseParser.resolve_forward_refs)
GUARDED_FUNCS = ("resolve_forward_refs@base.py", "_resolve_forward_refs@base.py", "_resolve_forward_refs@func.py", "resolve_forward_refs@cls.py")     # what the gate protects


def campaign(ctx):
    def body(case):
        r = run_case(case)
        ctx.label(f"workload_{case['workload']}")
        ctx.label(f"preemptions_{len(case['schedule'])}")
        if r["released_all"]:
            ctx.label("blocked_on_a_lock_released_all")
        if r["transfers"] > 0:
            ctx.label("control_transferred_inside_library_code")
            ctx.nt(case)
            ctx.sample(case["workload"], case)
        ctx.fail_all(r["fails"], case)

    wl = ["W1", "W2", "W5", "W6"] if not ctx.thorough else ["W1", "W2", "W3", "W4", "W5", "W6"]
    # 1. exhaustive one-preemption sweep (split over the shards)
    n = 0
    idx = 0
    for w in wl:
        lens = measure(w, 2)
        ctx.extra[f"line_events_{w}"] = lens
        for t in (0, 1):
            for k in range(1, lens[t] + 1):
                idx += 1
                if idx % ctx.nshards != ctx.shard:
                    continue
                ctx.ev()
                n += 1
                body({"workload": w, "schedule": [[t, k]], "start": t, "threads": 2})
    ctx.extra["one_preemption_schedules"] = n
    ctx.extra["one_preemption_exhaustive"] = True
    # 1b. two preemptions around the serialisation gate: thread t is stopped at one of its first line events inside the gate
    #     (before / while taking the lock), the other thread is then stopped at any line of the guarded resolution, t runs on.
    #     Enumerated completely: a check-then-act slip at the gate needs exactly such a pair.
    n2 = 0
    for w in (["W1"] if not ctx.thorough else ["W1", "W2", "W4"]):
        names = measure_funcs(w, 2)
        for t in (0, 1):
            o = 1 - t
            gate = [k for k, f in enumerate(names[t], 1) if f in GATE_FUNCS][: (12 if not ctx.thorough else 40)]
            guarded = [k for k, f in enumerate(names[o], 1) if f in GUARDED_FUNCS]
            for ka in gate:
                for kb in guarded:
                    idx += 1
                    if idx % ctx.nshards != ctx.shard:
                        continue
                    ctx.ev()
                    n2 += 1
                    body({"workload": w, "schedule": [[t, ka], [o, kb]], "start": t, "threads": 2})
    ctx.extra["gate_pair_schedules"] = n2
    # 2. sampled multi-preemption schedules over all workloads
    sched = st.fixed_dictionaries({
        "workload": st.sampled_from(["W1", "W2", "W3", "W4", "W5", "W6"]), "threads": st.sampled_from([2, 2, 3]),
    }).flatmap(lambda c: st.fixed_dictionaries({
        "workload": st.just(c["workload"]), "threads": st.just(c["threads"]), "start": st.integers(0, c["threads"] - 1),
        "schedule": st.lists(st.tuples(st.integers(0, c["threads"] - 1), st.integers(1, 3000)).map(list), min_size=1, max_size=3)}))
    ctx.run_given(sched, body, max_examples=ctx.n(150, 1500))
