"""C01 - parsed results always conform to the declared type and constraints.

Generated: (TypeSpec, ValueSpec, non-waiving Options, entry point).  Oracle: the type-directed
conformance predicate tspec.conforms (independent constraint semantics from vf/constraints.py).
A ParseError is the allowed alternative; any other exception / hang belongs to C04 and is only counted.
"""
from hypothesis import strategies as st

from .. import codec, entries, gen, oracle, tspec
from ..core import HarnessError

ID = "C01"
RULE = ("(type spec, value, options, entry) with the value drawn 50/50 type-directed (conforming / convertible / "
        "boundary / near-miss) and hostile; non-trivial = the parse was accepted and the result differs from the input "
        "(a conversion happened at the top or at a nested position), or it was rejected by a ParseError after the "
        "type-directed generator aimed at the type; distinct = hash of (type spec, value spec, options, entry)")
ASSUMPTIONS = [
    "conformance predicate vf/tspec.py:conforms with constraint semantics from docs (vf/constraints.py)",
    "lax constraints are not asserted here (C03); declared defaults and 'preserve' policies are not generated",
    "declarations the library refuses at declaration time are discarded and counted",
    "non-ParseError exceptions and hangs are C04's subject: counted under label other_exception, no C01 verdict",
]
SHARDS = {"quick": 4, "thorough": 16}

OPTION_SETS = st.fixed_dictionaries({}, optional={
    "no_explicit_cast": st.just(True),
    "no_data_loss": st.just(True),
    "collect_errors": st.just(True),
    "invalid_items": st.just("exclude"),
    "invalid_keys": st.just("exclude"),
    "invalid_values": st.just("exclude"),
    "allow_subclasses": st.just(False),
}).flatmap(lambda d: st.just(d) if "collect_errors" not in d else
           st.sampled_from([None, 1, 2]).map(lambda m: dict(d, **({"max_errors": m} if m else {}))))

_decl_error_types = None


def decl_errors():
    global _decl_error_types
    if _decl_error_types is None:
        from utype.utils.exceptions import ConfigError
        _decl_error_types = (ConfigError, TypeError, SyntaxError, ValueError, AssertionError, AttributeError,
                             NotImplementedError, RecursionError)
    return _decl_error_types


def run_case(case):
    """-> dict(status, ...) ; status in discarded | perr | other | hang | ok"""
    try:
        spec, vs, opts, entry = case["type"], case["value"], case.get("options") or {}, case["entry"]
    except (KeyError, TypeError):
        raise HarnessError("malformed case")
    if entry not in entries.ENTRIES:
        raise HarnessError("bad entry")
    tspec.validate(spec)
    try:
        T = tspec.build(spec)
        fn = entries.build_entry(entry, T, opts)
    except HarnessError:
        raise
    except decl_errors() as e:
        return {"status": "discarded", "why": type(e).__name__}
    x = codec.decode(vs)
    out = oracle.outcome(fn, x)
    if out[0] == "ok":
        r = out[1]
        if r is entries.ABSENT:
            return {"status": "absent"}
        why = []
        tspec.TUPLE_EXTRA_OK[0] = entry in ("addition", "varkw") or bool((opts or {}).get("addition"))
        try:
            ok = tspec.conforms(r, spec, why)
        finally:
            tspec.TUPLE_EXTRA_OK[0] = False
        changed = not oracle.equal(r, x) if not _one_shot(x) else True
        return {"status": "ok", "conforms": ok, "why": why[0] if why else None, "result": r, "changed": changed}
    if out[0] == "perr":
        return {"status": "perr", "exc": out[1]}
    if out[0] == "hang":
        return {"status": "hang"}
    return {"status": "other", "exc": out[1]}


def _one_shot(x):
    import types
    return isinstance(x, types.GeneratorType) or type(x).__name__.endswith("iterator")


def judge(case):
    r = run_case(case)
    if r["status"] == "ok" and not r["conforms"]:
        return [(f"nonconforming/{r['why']}",
                 {"why": r["why"], "result": codec.encode(r["result"]), "entry": case["entry"]})]
    return []


def case_strategy(thorough):
    ts = gen.type_specs(max_leaves=5 if thorough else 3, lax_ok=False, with_args=True)
    nums = gen.constrained(origins=["int", "float", "decimal", "decimal"])
    ts = st.one_of(gen.leaf, gen.constrained(), gen.constrained(), nums, nums, gen.enum_t, gen.literal_t, ts, ts, ts)

    def with_value(spec):
        vals = st.one_of(gen.conforming(spec), gen.conforming(spec), gen.hostile(max_leaves=10 if thorough else 6))
        return st.fixed_dictionaries({
            "type": st.just(spec), "value": vals, "options": OPTION_SETS,
            "entry": st.sampled_from(entries.ENTRIES),
        })
    return ts.flatmap(with_value)


def campaign(ctx):
    def body(case):
        r = run_case(case)
        s = r["status"]
        ctx.label(f"status_{s}")
        ctx.label(f"entry_{case['entry']}")
        ctx.label(f"kind_{case['type']['k']}")
        if s == "ok":
            if r["changed"]:
                ctx.label("accepted_with_conversion")
                ctx.nt(case)
                ctx.sample("accepted-converted", case)
            if not r["conforms"]:
                ctx.fail(f"nonconforming/{r['why']}", case,
                         {"why": r["why"], "result": codec.encode(r["result"]), "entry": case["entry"]})
        elif s == "perr":
            ctx.nt(case)
            ctx.sample("rejected", case)
        elif s in ("other", "hang"):
            ctx.label("other_exception")
    ctx.run_given(case_strategy(ctx.thorough), body, max_examples=ctx.n(1500, 20000))
    # digit-count constraints x every spelling of a number (fixed point, exponent forms, floats whose repr has an exponent):
    # a small grid enumerated completely on every run, independent of the seed
    spellings = ["1", "9", "10", "99", "100", "999", "1000", "12345", "0.5", "0.05", "1.5", "1.50", "12.345", "99.99", "0.999", "1E+2", "1E+5", "12E+3", "1.5E+4",
                 "1E-3", "15E-1", "1e16", "3e18", "1.5e20", "-1E+5", "-99.9", "0E+3", "0", "-0.0"]
    idx = 0
    for o in ("decimal", "float"):
        for md in (1, 2, 3, 5):
            for dp in (None, 0, 1, 2):
                if dp is not None and dp > md:
                    continue
                c = {"max_digits": md}
                if dp is not None:
                    c["decimal_places"] = dp
                for sp in spellings:
                    for form in ("str", "typed"):
                        idx += 1
                        if idx % ctx.nshards != ctx.shard:
                            continue
                        v = sp if form == "str" else ({"t": "decimal", "v": sp} if o == "decimal" else {"t": "float", "v": repr(float(sp))})
                        ctx.ev()
                        body({"type": {"k": "con", "o": o, "c": c, "m": "annotate"}, "value": v, "options": {}, "entry": "call" if idx % 2 else "schema"})
    ctx.extra["digits_grid_exhaustive"] = True
    # rules checked only by `contains`, alone and as a member of Optional / Union: enumerated completely
    CI = {"k": "con", "o": "list", "c": {}, "contains": {"k": "leaf", "o": "int"}, "m": "class"}
    CP = {"k": "con", "o": "tuple", "c": {}, "contains": {"k": "con", "o": "int", "c": {"gt": 0}}, "min_contains": 2, "m": "annotate"}
    for rule in (CI, CP):
        for spec in (rule, {"k": "opt", "a": rule, "m": "annotate"}, {"k": "union", "a": [rule, {"k": "leaf", "o": "none"}], "m": "annotate"},
                     {"k": "union", "a": [{"k": "leaf", "o": "str"}, rule], "m": "typing"}):
            for vals in (["a", "b"], [], [1], ["1", "x"], [1, 2, "a"], [0, -1], ["a"]):
                for cont in ("list", "tuple"):
                    for entry in ("call", "schema", "param"):
                        idx += 1
                        if idx % ctx.nshards != ctx.shard:
                            continue
                        ctx.ev()
                        body({"type": spec, "value": {"t": cont, "v": vals}, "options": {}, "entry": entry})
    from .c04 import fuzz_tier
    fuzz_tier(ctx, run_case, pid="C01")
