"""C14 - JSON encoding round-trips through the parser.

Generated: data classes (Schema / DataClass, nested, Optional, containers) whose field types come from the
JSON-faithful domain named by the property, and instances whose values lie in that domain (emphasis: negative and
zero UTC offsets, years < 1000, microsecond-only and negative durations, -0.0, 1e+-300, 2**53 +- 1, empty
containers, millisecond times, 15-digit Decimals).
Oracle (round trip): s = json.dumps(inst, cls=utype.JSONEncoder) succeeds; json.loads(s) succeeds with
NaN/Infinity tokens refused (standard JSON); equal(Cls.__from__(s), inst).
"""
import datetime as dt
import json

from hypothesis import strategies as st

from .. import codec, dspec, gen, oracle, tspec
from ..core import HarnessError
from .c01 import decl_errors

ID = "C14"
RULE = ("(data class over JSON-faithful field types, instance values of exactly those types); non-trivial = the instance holds at least one "
        "value that is not JSON-native (Decimal, date/time types, UUID, bytes, set, tuple, Enum, nested data class); distinct = hash of the case")
ASSUMPTIONS = [
    "domain as stated: int, float except NaN, str, bool, None, UTF-8 bytes, Decimal <= 15 significant digits, date, datetime naive or with a UTC offset, "
    "time to millisecond precision, timedelta, UUID, Enum, list/set/tuple/dict (str or int keys) and nested data classes of these",
    "standard JSON = json.loads(text, parse_constant=<raise>) succeeds",
    "equality = vf/oracle.py:equal (Decimal by numeric value; tz-aware datetimes by instant and offset)",
]
SHARDS = {"quick": 4, "thorough": 16}

SCALARS = ["int", "float", "str", "bool", "none", "bytes", "decimal", "date", "datetime", "time", "timedelta", "uuid"]
HASHABLE = ["int", "str", "bool", "decimal", "date", "datetime", "uuid", "float"]


def L(o):
    return {"k": "leaf", "o": o}


def _f(x):
    return {"t": "float", "v": repr(float(x))}


_OFFS = [None, None, 0, 60, -60, 330, -330, 480, -480, -720, 840, -1, 1, 345]
VALUES = {
    "int": st.one_of(st.integers(-10, 10), st.sampled_from([2 ** 53 - 1, 2 ** 53, 2 ** 53 + 1, -(2 ** 53) - 1, 10 ** 30, -(10 ** 30), 2 ** 63, 0]).map(gen._int_spec),
                     st.integers().map(gen._int_spec)),
    "float": st.one_of(st.sampled_from(["0.0", "-0.0", "1.5", "1e300", "-1e300", "1e-300", "5e-324", "1.7976931348623157e+308", "0.1", "1e16", "1e22",
                                        "9007199254740993.0", "123456.789", "inf", "-inf"]).map(lambda s: {"t": "float", "v": s}),
                       st.floats(allow_nan=False, allow_infinity=False).map(_f)),
    "str": st.one_of(st.text(max_size=6), st.sampled_from(["", "é", " ", "😀", "null", "1", "2020-01-02", '"', "\\", "\x00", "\x7f"])),
    "bool": st.booleans(),
    "none": st.none(),
    "bytes": st.one_of(st.text(max_size=5).map(lambda s: {"t": "bytes", "v": s.encode("utf-8").hex()}),
                       st.sampled_from(["", "61", "c3a9", "00", "e282ac"]).map(lambda h: {"t": "bytes", "v": h})),
    "decimal": st.one_of(st.sampled_from(["0", "-0", "1", "1.50", "1.5", "0.001", "123456789012345", "-123456789.012345", "1E+3", "1E-7", "12E+2", "0E+2",
                                          "999999999999999", "0.000000000000001", "1E+20", "9007199254740993", "1.0", "100", "1E+2",
                                          "1E-400", "-1E-400", "123E-330", "1E+400", "-15E+399", "1E-320", "5E-324", "1.5E+308", "17E+307"]),
                         st.tuples(st.integers(-(10 ** 15) + 1, 10 ** 15 - 1), st.integers(-12, 8)).map(lambda t: f"{t[0]}E{t[1]}")).map(lambda s: {"t": "decimal", "v": s}),
    "date": st.one_of(st.dates().map(lambda d: {"t": "date", "v": d.isoformat()}),
                      st.sampled_from(["0001-01-01", "0999-12-31", "9999-12-31", "1970-01-01", "2020-02-29"]).map(lambda s: {"t": "date", "v": s})),
    "datetime": st.builds(
        lambda d, off, us: d.replace(microsecond=us, tzinfo=None if off is None else dt.timezone(dt.timedelta(minutes=off))),
        st.one_of(st.datetimes(min_value=dt.datetime(1, 1, 2), max_value=dt.datetime(9999, 12, 30)),
                  st.sampled_from([dt.datetime(999, 1, 1, 0, 0, 0), dt.datetime(1970, 1, 1), dt.datetime(2020, 1, 2, 3, 4, 5), dt.datetime(1, 1, 2)])),
        st.sampled_from(_OFFS), st.sampled_from([0, 0, 1, 1000, 123000, 123456, 999999]),
    ).map(lambda d: {"t": "datetime", "v": d.isoformat()}),
    "time": st.builds(lambda h, m, s, ms: dt.time(h, m, s, ms * 1000), st.integers(0, 23), st.integers(0, 59), st.integers(0, 59),
                      st.sampled_from([0, 0, 1, 10, 100, 123, 500, 999])).map(lambda t: {"t": "time", "v": t.isoformat()}),
    "timedelta": st.one_of(
        st.sampled_from([[0, 0, 0], [0, 0, 1], [0, 0, 999999], [-1, 86399, 999999], [-1, 0, 0], [1, 0, 0], [0, 1, 500000], [-5, 3600, 0], [999, 3661, 1],
                         [0, 59, 0], [0, 60, 0], [0, 3599, 0], [-1, 86399, 0],
                         # the whole range of the type: beyond 2**53 microseconds a float of seconds no longer holds the microseconds
                         [999999999, 86399, 999999], [-999999999, 0, 0], [200000, 0, 1], [104250, 5, 123457], [-200000, 86399, 999999], [60000, 1, 999999]]),
        st.tuples(st.integers(-1000, 1000), st.integers(0, 86399), st.integers(0, 999999)).map(list),
        st.tuples(st.integers(-999999999, 999999999), st.integers(0, 86399), st.integers(0, 999999)).map(list)).map(lambda v: {"t": "timedelta", "v": v}),
    "uuid": gen.uuids,
}
ENUM_VALUES = {n: [{"t": "enum", "e": n, "m": m.name} for m in e] for n, e in codec.ENUMS.items()}


def values_for(t):
    k = t["k"]
    if k == "leaf":
        return VALUES[t["o"]]
    if k == "enum":
        return st.sampled_from(ENUM_VALUES[t["e"]])
    if k in ("list", "tuplev"):
        return st.lists(values_for(t["a"]), max_size=3).map(lambda v: {"t": "list" if k == "list" else "tuple", "v": v})
    if k in ("set", "frozenset"):
        return st.lists(values_for(t["a"]), max_size=3).map(lambda v: {"t": k, "v": v}).filter(_decodes)
    if k == "tuple":
        return st.tuples(*[values_for(a) for a in t["a"]]).map(lambda v: {"t": "tuple", "v": list(v)})
    if k == "dict":
        return st.lists(st.tuples(values_for(t["key"]), values_for(t["val"])).map(list), max_size=3).map(lambda v: {"t": "dict", "v": v}).filter(_decodes)
    if k == "opt":
        return st.one_of(st.none(), values_for(t["a"]), values_for(t["a"]))
    if k == "data":
        return inst_values(t["d"])
    raise HarnessError("no values for " + k)


def _decodes(vs):
    try:
        codec.decode(vs)
        return True
    except Exception:
        return False


def inst_values(d):
    """{"t": "inst", "v": [[field, ValueSpec], ...]} for a DeclSpec"""
    return st.tuples(*[values_for(fd["type"]) for fd in d["fields"]]).map(
        lambda vals: {"t": "inst", "v": [[fd["name"], v] for fd, v in zip(d["fields"], vals)]})


def scalar_t():
    return st.one_of(st.sampled_from(SCALARS).map(L), st.sampled_from(["Color", "Num", "Plain", "Cross"]).map(lambda e: {"k": "enum", "e": e}))


def field_types(depth):
    base = scalar_t()
    hash_t = st.one_of(st.sampled_from(HASHABLE).map(L), st.sampled_from(["Color", "Num", "Plain", "Plain", "Cross"]).map(lambda e: {"k": "enum", "e": e}),
                       st.sampled_from(["int", "str"]).map(lambda o: {"k": "opt", "a": L(o)}),
                       # hashable containers: a set of pairs is written as an array of arrays
                       st.sampled_from([{"k": "tuple", "a": [L("int"), L("int")]}, {"k": "tuple", "a": [L("str"), L("date")]}, {"k": "tuplev", "a": L("int")}]))
    if depth <= 0:
        return base
    inner = field_types(depth - 1)
    opts = [
        base, base,
        inner.map(lambda a: {"k": "list", "a": a}),
        hash_t.map(lambda a: {"k": "set", "a": a}),
        inner.map(lambda a: {"k": "tuplev", "a": a}),
        st.lists(base, min_size=1, max_size=3).map(lambda a: {"k": "tuple", "a": a}),
        st.tuples(st.sampled_from(["str", "str", "int"]).map(L), inner).map(lambda t: {"k": "dict", "key": t[0], "val": t[1]}),
        base.map(lambda a: {"k": "opt", "a": a}),
    ]
    if depth >= 2:
        opts.append(decls(depth - 2, "N%d" % depth).map(lambda d: {"k": "data", "d": d}))
    return st.one_of(*opts)


@st.composite
def decls(draw, depth, name="R"):
    n = draw(st.integers(1, 4))
    fields = [{"name": f"f{i}", "type": draw(field_types(depth))} for i in range(n)]
    # KF-C14-03: attribute-based data classes cannot be encoded at all; one in twelve declarations keeps re-finding it
    base = draw(st.sampled_from(["schema"] * 11 + ["dataclass"]))
    return {"name": name + "".join(draw(st.sampled_from(["", "a", "b"]))), "base": base, "fields": fields}


def make_instance(cls_of, d, ivs):
    """build the instance directly from values of the exact types"""
    cls = cls_of(d)
    kw = {}
    by = {fd["name"]: fd for fd in d["fields"]}
    for name, v in ivs["v"]:
        kw[name] = make_value(cls_of, by[name]["type"], v)
    return cls(**kw)


def make_value(cls_of, t, v):
    k = t["k"]
    if isinstance(v, dict) and v.get("t") == "inst":
        return make_instance(cls_of, t["d"] if k == "data" else t["a"]["d"], v)
    if k == "opt":
        return None if v is None else make_value(cls_of, t["a"], v)
    if k in ("list", "tuplev", "set", "frozenset"):
        items = [make_value(cls_of, t["a"], e) for e in v["v"]]
        return {"list": list, "tuplev": tuple, "set": set, "frozenset": frozenset}[k](items)
    if k == "tuple":
        return tuple(make_value(cls_of, a, e) for a, e in zip(t["a"], v["v"]))
    if k == "dict":
        return {make_value(cls_of, t["key"], kk): make_value(cls_of, t["val"], vv) for kk, vv in v["v"]}
    return codec.decode(v)


def non_native(x):
    import decimal
    import enum
    import uuid
    if isinstance(x, (decimal.Decimal, dt.date, dt.time, dt.timedelta, uuid.UUID, bytes, set, frozenset, tuple, enum.Enum)) or oracle.is_dataclass_inst(x):
        return True
    if isinstance(x, dict):
        return any(non_native(v) or non_native(k) for k, v in x.items())
    if isinstance(x, (list,)):
        return any(non_native(v) for v in x)
    return False


def _reject_constant(name):
    raise ValueError("non-standard JSON constant " + name)


def run_case(case):
    import utype
    try:
        d, ivs = case["decl"], case["inst"]
    except (KeyError, TypeError):
        raise HarnessError("malformed case")
    dspec.validate(d)
    reg = {}

    def cls_of(dd):
        key = codec.canon_value(None) + json.dumps(dd, sort_keys=True)
        if key not in reg:
            reg[key] = dspec.build_decl(dd, {})
        return reg[key]
    try:
        try:
            inst = make_instance(cls_of, d, ivs)
        except HarnessError:
            raise
        except decl_errors():
            return {"status": "discarded", "fails": []}
        except (KeyError, IndexError):
            raise HarnessError("malformed instance")
        except Exception as e:
            # values are conforming by construction: a refusal here is C01/C04's business, not this check's
            return {"status": "construction-refused", "fails": [], "why": type(e).__name__}
        cls = type(inst)
        nn = any(non_native(v) for v in (dict(inst).values() if isinstance(inst, dict) else vars(inst).values()))
        fails = []
        kinds = "+".join(sorted(_kinds(d)))
        try:
            s = json.dumps(inst, cls=utype.JSONEncoder)
        except Exception as e:
            import re
            m = re.search(r"Object of type (\w+) is not JSON serializable", str(e))
            what = "attribute-based-data-class" if (m and _has_dataclass_base(d) and m.group(1) not in ("set", "tuple", "Decimal", "datetime")) \
                else (m.group(1) if m else re.sub(r"[^a-z<>' ]+", "", str(e).lower())[:50].strip().replace(" ", "-"))
            return {"status": "ok", "nn": nn, "fails": [(f"encoding-raises/{type(e).__name__}/{what}", {"error": str(e)[:200], "kinds": kinds,
                                                                                                     "dataclass_base": _has_dataclass_base(d)})]}
        try:
            json.loads(s, parse_constant=_reject_constant)
        except ValueError as e:
            fails.append(("not-standard-json", {"text": s[:200], "error": str(e)[:100]}))
            return {"status": "ok", "nn": nn, "fails": fails}
        back = oracle.outcome(cls.__from__, s)
        if back[0] != "ok":
            fails.append((f"parse-back-fails/{_culprit(back[1])}", {"text": s[:300], "error": str(back[1])[:300], "kinds": kinds}))
        elif not oracle.equal(back[1], inst):
            fails.append((f"round-trip-differs/{_diff(inst, back[1], d)}", {"text": s[:300], "before": oracle.short(inst, 300), "after": oracle.short(back[1], 300)}))
        return {"status": "ok", "nn": nn, "fails": fails}
    finally:
        dspec.cleanup()


def _has_dataclass_base(d):
    if d.get("base") != "schema":
        return True

    def walk(t):
        if t["k"] == "data":
            return _has_dataclass_base(t["d"])
        for key in ("a", "key", "val"):
            sub = t.get(key)
            if isinstance(sub, dict) and walk(sub):
                return True
            if isinstance(sub, list) and any(walk(x) for x in sub):
                return True
        return False
    return any(walk(fd["type"]) for fd in d["fields"])


def _kinds(d, out=None):
    out = set() if out is None else out

    def walk(t):
        if t["k"] == "leaf":
            out.add(t["o"])
        elif t["k"] == "enum":
            out.add("enum")
        else:
            out.add(t["k"])
        for key in ("a", "key", "val"):
            sub = t.get(key)
            if isinstance(sub, dict):
                walk(sub)
            elif isinstance(sub, list):
                for x in sub:
                    walk(x)
        if t["k"] == "data":
            _kinds(t["d"], out)
    for fd in d["fields"]:
        walk(fd["type"])
    return out


def _culprit(e):
    """type named by the innermost message of the parse error (root-cause key)"""
    msg = str(e)
    for name in ("datetime", "date", "timedelta", "time", "Decimal", "UUID", "bytes", "float", "int", "set", "tuple", "dict", "list", "Color", "Num", "Plain", "bool", "NoneType", "str"):
        if name in msg:
            return name
    return "other"


def _diff(a, b, d):
    """type name of the first differing leaf"""
    def walk(x, y):
        if type(x) is not type(y):
            return f"type:{type(x).__name__}->{type(y).__name__}"
        if oracle.is_dataclass_inst(x):
            xa, ya = (dict(x), dict(y)) if isinstance(x, dict) else (vars(x), vars(y))
            for k in xa:
                if k in ("__context__", "__options__"):
                    continue
                if k not in ya:
                    return "missing-field"
                if not oracle.equal(xa[k], ya[k]):
                    return walk(xa[k], ya[k])
            return "extra-field"
        if isinstance(x, (list, tuple)):
            if len(x) != len(y):
                return f"{type(x).__name__}-length"
            for p, q in zip(x, y):
                if not oracle.equal(p, q):
                    return walk(p, q)
        if isinstance(x, dict):
            for k in x:
                if k not in y:
                    return "dict-key:" + type(k).__name__
                if not oracle.equal(x[k], y[k]):
                    return walk(x[k], y[k])
        if isinstance(x, (set, frozenset)):
            return f"{type(x).__name__}-of-" + "|".join(sorted({type(e).__name__ for e in x}))
        return type(x).__name__
    return walk(a, b)


def judge(case):
    return run_case(case)["fails"]


def case_strategy(thorough):
    return decls(3 if thorough else 2).flatmap(lambda d: st.fixed_dictionaries({"decl": st.just(d), "inst": inst_values(d)}))


def campaign(ctx):
    def body(case):
        r = run_case(case)
        ctx.label(f"status_{r['status']}")
        if r["status"] == "ok":
            for kname in _kinds(case["decl"]):
                ctx.label(f"type_{kname}")
            if r["nn"]:
                ctx.nt(case)
                ctx.sample("round-trip", case)
        ctx.fail_all(r["fails"], case)
    ctx.run_given(case_strategy(ctx.thorough), body, max_examples=ctx.n(1200, 15000))
