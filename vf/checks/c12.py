"""C12 - conversion preferences only restrict, and keep their promises.

Generated: (source value, target type) x the four combinations of no_explicit_cast / no_data_loss, through
type_transform and through a Schema field.  A fixed table (every source x every target x 4 flag sets) is
enumerated completely on every run; Hypothesis adds hostile and type-directed sources.
Oracle: (a) restriction - accepted under flags => accepted without flags, equal value, same type;
(b) the no_data_loss promises, each an independent predicate on (source, result);
(c) no_explicit_cast - accepted => source group == target group, apart from the documented exceptions.
"""
import collections
import collections.abc
import datetime as dt
import decimal
import enum
import math
import uuid
from fractions import Fraction

from hypothesis import strategies as st

from .. import codec, entries, gen, oracle, tspec
from ..core import HarnessError

ID = "C12"
RULE = ("(source value, target) pairs, each run under {}, {no_explicit_cast}, {no_data_loss}, {both}; table part: a fixed list of "
        "representative sources x all targets enumerated exhaustively; random part: hostile + type-directed sources. "
        "non-trivial = accepted without flags and rejected under at least one flag, or accepted under a flag with a type change; "
        "distinct = hash of (source, target, entry)")
ASSUMPTIONS = [
    "groups (docs/en/references/options.md): null None; boolean bool; number int/float/Decimal/complex; string str/bytes/bytearray/memoryview; "
    "array list/tuple/set/frozenset/deque; object dict/Mapping",
    "documented exceptions under no_explicit_cast: Decimal <- str; date/datetime/time/timedelta <- str and numbers",
    "silent (counted): bool <-> number under no_explicit_cast; complex <- str; targets outside the six groups (UUID, Enum) for the group rule; "
    "sources outside the six groups; zero-time strings -> date under no_data_loss",
    "boolean words under no_data_loss: true/false/yes/no/on/off/t/f/y/n/1/0 and the empty string/null words as the library documents",
]
SHARDS = {"quick": 2, "thorough": 16}

FLAGSETS = [("none", {}), ("ne", {"no_explicit_cast": True}), ("ndl", {"no_data_loss": True}),
            ("both", {"no_explicit_cast": True, "no_data_loss": True})]

TARGETS = ["none", "bool", "int", "float", "decimal", "complex", "str", "bytes", "bytearray", "list", "tuple", "set", "frozenset",
           "dict", "date", "datetime", "time", "timedelta", "uuid", "enum:Color", "enum:Num", "enum:Plain", "enum:Cross", "sub:int", "sub:str",
           "sub:float", "sub:list", "sub:dict", "tuple2", "data",
           # unions: their staged resolution (strict, no-loss, lenient) relies on the flags only restricting
           "union:str|int", "union:int|str", "union:int|float", "union:float|int", "union:int|list", "union:bool|int|str", "union:date|datetime|str",
           "union:decimal|float|none"]
SCALAR_TARGETS = {"none", "bool", "int", "float", "decimal", "complex", "str", "bytes", "bytearray", "date", "datetime", "time",
                  "timedelta", "uuid", "enum:Color", "enum:Num", "enum:Plain", "enum:Cross", "sub:int", "sub:str", "sub:float"}
TARGET_GROUP = {"none": "null", "bool": "boolean", "int": "number", "float": "number", "decimal": "number", "complex": "number",
                "str": "string", "bytes": "string", "bytearray": "string", "list": "array", "tuple": "array", "set": "array",
                "frozenset": "array", "dict": "object", "sub:int": "number", "sub:str": "string", "sub:float": "number",
                "sub:list": "array", "sub:dict": "object", "tuple2": "array", "data": "object"}
TEMPORAL = {"date", "datetime", "time", "timedelta"}

_data_cls = {}


def target_type(name, options):
    import utype
    from utype.parser.rule import Rule
    if name.startswith("enum:"):
        return codec.ENUMS[name[5:]]
    if name.startswith("sub:"):
        return codec.SUBS[name[4:]]
    if name == "tuple2":
        return Rule.annotate(tuple, int, int)
    if name.startswith("union:"):
        from utype.parser.rule import LogicalType
        return LogicalType.any_of(*[tspec.ORIGINS[o] for o in name[6:].split("|")])
    if name == "data":
        # the flags are class options of the data class itself: a nested data class parses with its own options
        ns = {"__annotations__": {"a": int, "b": str}, "b": "", "__module__": "vf.entries", "__qualname__": "TwoFields"}
        o = entries.make_options(options)
        if o is not None:
            ns["__options__"] = o
        return type("TwoFields", (utype.Schema,), ns)
    return tspec.ORIGINS[name]


def group_of(x):
    if x is None:
        return "null"
    if isinstance(x, bool):
        return "boolean"
    if isinstance(x, (int, float, decimal.Decimal, complex)):
        return "number"
    if isinstance(x, (str, bytes, bytearray, memoryview)):
        return "string"
    if isinstance(x, (list, tuple, set, frozenset, collections.deque)):
        return "array"
    if isinstance(x, collections.abc.Mapping):
        return "object"
    return "other"


def _has_tgt(spec):
    if isinstance(spec, dict):
        return spec.get("t") == "tgt" or _has_tgt(spec.get("v"))
    if isinstance(spec, list):
        return any(_has_tgt(e) for e in spec)
    return False


def _decode_for(spec, T, tname):
    """codec.decode, with {"t": "tgt", "v": pairs} standing for an INSTANCE of the target data class (a plain dict for other targets)"""
    if not _has_tgt(spec):
        return codec.decode(spec)
    if spec.get("t") == "tgt":
        d = {k: codec.decode(v) for k, v in spec["v"]}
        return T(**d) if tname == "data" else d
    if spec.get("t") in ("list", "tuple"):
        items = [_decode_for(e, T, tname) for e in spec["v"]]
        return items if spec["t"] == "list" else tuple(items)
    raise HarnessError("target instances only inside lists / tuples")


def run_one(x_spec, tname, flags, entry):
    import utype
    if "__class_attrs__" in flags:
        # the flags given the other documented way: as class attributes of an Options subclass
        opts = type("FlagOptions", (utype.Options,), dict(flags["__class_attrs__"]))()
        flags = dict(flags["__class_attrs__"])
        T = target_type(tname, None)
        if tname == "data":
            T = type("TwoFields", (utype.Schema,), {"__annotations__": {"a": int, "b": str}, "b": "", "__module__": "vf.entries", "__qualname__": "TwoFields", "__options__": opts})
    else:
        opts = entries.make_options(flags)
        T = target_type(tname, flags)
    x = _decode_for(x_spec, T, tname)
    if entry == "transform":
        return oracle.reject_raw(oracle.outcome(utype.type_transform, x, T, opts))
    ns = {"__annotations__": {"v": T}, "__module__": "vf.entries", "__qualname__": "E12"}
    if opts is not None:
        ns["__options__"] = opts
    S = type("E12", (utype.Schema,), ns)
    out = oracle.outcome(lambda: S(v=x).v)
    return out


TRUE_WORDS = {"true", "yes", "on", "t", "y", "1"}
FALSE_WORDS = {"false", "no", "off", "f", "n", "0", "", "null", "none", "nil"}


def _as_fraction(x):
    """exact numeric value of a number or of a number-like string; None if not a finite number"""
    if isinstance(x, bool):
        return Fraction(int(x))
    if isinstance(x, int):
        return Fraction(x)
    if isinstance(x, float):
        return Fraction(x) if math.isfinite(x) else None
    if isinstance(x, decimal.Decimal):
        return Fraction(x) if x.is_finite() else None
    if isinstance(x, (bytes, bytearray)):
        try:
            x = bytes(x).decode("utf-8")
        except UnicodeDecodeError:
            return None
    if isinstance(x, str):
        try:
            d = decimal.Decimal(x.strip())
        except (decimal.InvalidOperation, ValueError):
            return None
        return Fraction(d) if d.is_finite() else None
    return None


def ndl_promises(x, tname, r):
    """violated promise (str) or None, for a conversion x -> r accepted under no_data_loss"""
    # a multi-element collection never collapses to a scalar
    if tname in SCALAR_TARGETS and isinstance(x, (list, tuple, set, frozenset)) and len(x) > 1:
        if not (tname == "complex" and isinstance(x, tuple) and len(x) == 2):   # (re, im) pair: nothing is dropped
            return "multi-element-collection-collapsed-to-scalar"
    # ... nor does one hidden inside one-item wrappers (text targets keep the whole inner collection as text: nothing is dropped)
    if tname in SCALAR_TARGETS and tname not in ("str", "sub:str", "bytes", "bytearray") and isinstance(x, (list, tuple)) and len(x) == 1:
        inner = x[0]
        while isinstance(inner, (list, tuple)) and len(inner) == 1:
            inner = inner[0]
        if isinstance(inner, (list, tuple, set, frozenset, dict)) and len(inner) > 1 and not (tname == "complex" and isinstance(inner, tuple) and len(inner) == 2):
            return "nested-multi-element-collection-collapsed-to-scalar"
    if tname in ("str", "sub:str") and isinstance(x, (list, tuple)) and len(x) == 1 and isinstance(x[0], (list, tuple)) and len(x[0]) > 1:
        # (elements whose text carries a memory address - iterators, plain objects - differ between two decodes of the spec: not compared)
        if not all(str(e) in str(r) for e in x[0] if " at 0x" not in str(e)):
            return "nested-collection-cut-down-in-text"
    if tname == "data" and isinstance(x, (list, tuple)) and len(x) > 1:
        return "multi-element-collection-collapsed-to-one-object"
    if tname in ("int", "sub:int"):
        if isinstance(x, (int, float, decimal.Decimal, str, bytes, bytearray)) and not isinstance(x, bool):
            f = _as_fraction(x)
            if f is not None:
                if f.denominator != 1:
                    return "fractional-number-became-int"
                if Fraction(int(r)) != f:
                    return "numeric-value-not-preserved"
            elif isinstance(x, (float, decimal.Decimal)):
                return "non-finite-number-became-int"
    if tname == "bool" and not isinstance(x, bool):
        ok = False
        if isinstance(x, (int, float, decimal.Decimal)) and not (isinstance(x, float) and math.isnan(x)):
            try:
                ok = x == 0 or x == 1
            except Exception:
                ok = False
        elif isinstance(x, (str, bytes)):
            s = x.decode("utf-8", "ignore") if isinstance(x, bytes) else x
            ok = s.lower() in TRUE_WORDS | FALSE_WORDS
        else:
            try:
                ok = bool(x == 0 or x == 1)
            except Exception:
                ok = False
        if not ok:
            return "ambiguous-value-became-bool"
    if tname in ("str", "sub:str") and isinstance(x, (bytes, bytearray, memoryview)):
        try:
            want = bytes(x).decode("utf-8", "strict")
        except UnicodeDecodeError:
            return "undecodable-bytes-became-str"
        if str(r) != want:
            return "bytes-not-decoded-strictly"
    if tname == "date":
        if isinstance(x, dt.datetime):
            return "datetime-became-date"
        if isinstance(x, str):
            t = _timed_string(x)
            if t:
                return "timed-string-became-date"
    if tname == "tuple2" and isinstance(x, (list, tuple)) and len(x) > 2:
        return "extra-tuple-items-dropped"
    if tname == "data" and isinstance(x, dict) and any(k not in ("a", "b") for k in x):
        return "unknown-keys-dropped"
    return None


def _timed_string(s):
    """does the string denote a datetime with a non-midnight time?  (independent: ISO forms only)"""
    s = s.strip()
    for sep in ("T", " "):
        if sep in s:
            d, _, t = s.partition(sep)
            try:
                dt.date.fromisoformat(d)
            except ValueError:
                continue
            t = t.rstrip("Z")
            for cut in ("+", "-"):
                if cut in t:
                    t = t.split(cut)[0]
            try:
                tm = dt.time.fromisoformat(t.strip())
            except ValueError:
                continue
            return tm != dt.time(0, 0)
    return False


def ne_rule(x, tname, r):
    """violated group rule (str) or None, for a conversion accepted under no_explicit_cast"""
    tg = TARGET_GROUP.get(tname)
    if tg is None:
        return None  # UUID / Enum / temporal targets: outside the six groups
    xg = group_of(x)
    if xg == "other":
        return None
    if xg == tg:
        return None
    if {xg, tg} == {"boolean", "number"}:
        return None
    if tname == "decimal" and xg == "string":
        return None
    if tname == "complex" and xg == "string":
        return None
    if isinstance(x, enum.Enum):
        return None
    return f"cross-group/{xg}->{tg}"


def _unstable(x, r):
    if isinstance(r, (str, bytes, bytearray)) and (b" at 0x" in bytes(r) if not isinstance(r, str) else " at 0x" in r):
        return True
    if isinstance(x, (set, frozenset)) and any(isinstance(e, float) and e != e for e in x):
        return True
    return False


def _unordered_unstable(vs, inside=False):
    if isinstance(vs, dict):
        t = vs.get("t")
        if inside and ((t == "float" and vs.get("v") == "nan") or (t == "decimal" and "nan" in str(vs.get("v")).lower()) or t in ("obj", "evil")):
            return True
        v = vs.get("v")
        ins = inside or t in ("set", "frozenset")
        if isinstance(v, list):
            return any(_unordered_unstable(e, ins) for e in v)
        if isinstance(v, dict):
            return _unordered_unstable(v, ins)
    elif isinstance(vs, list):
        return any(_unordered_unstable(e, inside) for e in vs)
    return False


def judge_pair(x_spec, tname, entry):
    """-> (fails, info)"""
    res = {}
    for fname, flags in FLAGSETS:
        res[fname] = run_one(x_spec, tname, flags, entry)
    fails = []
    base = res["none"]
    if tname.startswith("union:") or tname in ("data", "tuple2", "list", "dict"):
        # flags spelled out as False are the same as flags not given (the staged resolution of unions merges option sets)
        o = run_one(x_spec, tname, {"no_explicit_cast": False, "no_data_loss": False}, entry)
        if o[0] in ("ok", "perr") and base[0] in ("ok", "perr") and not _unstable(_decode_for(x_spec, None, "plain"), o[1] if o[0] == "ok" else None):
            same = o[0] == base[0] and (o[0] != "ok" or ((tname == "data" or type(o[1]) is type(base[1])) and oracle.equal(oracle.plain(o[1]), oracle.plain(base[1]))))
            if not same:
                fails.append((f"explicit-false-flags-differ-from-no-flags/{tname}", {"with_false_flags": oracle.short(o[1]), "without": oracle.short(base[1])}))
    if tname in ("tuple2", "data", "tuple", "int", "date", "union:int|list"):
        # flags set as class attributes of an Options subclass mean the same as flags passed to Options(...)
        for fname in ("ndl", "both"):
            o = run_one(x_spec, tname, {"__class_attrs__": dict(FLAGSETS[[n for n, _ in FLAGSETS].index(fname)][1])}, entry)
            b = res[fname]
            if o[0] in ("ok", "perr") and b[0] in ("ok", "perr") and not _unstable(_decode_for(x_spec, None, "plain"), o[1] if o[0] == "ok" else None):
                same = o[0] == b[0] and (o[0] != "ok" or ((tname == "data" or type(o[1]) is type(b[1])) and oracle.equal(oracle.plain(o[1]), oracle.plain(b[1]))))
                if not same:
                    fails.append((f"flags-as-class-attributes-differ-from-flags-as-arguments/{fname}/{tname}",
                                  {"as_class_attributes": oracle.short(o[1]), "as_arguments": oracle.short(b[1])}))
    if tname == "tuple2":
        # "extra tuple items ... are rejected" under no_data_loss - also when the option set names an addition policy itself
        # (a function with **kwargs parses with Options(addition=...) merged in)
        xx = _decode_for(x_spec, None, "plain")
        if isinstance(xx, (list, tuple)) and len(xx) > 2:
            for extra in ({"addition": True}, {"addition": "int"}):
                o = run_one(x_spec, tname, dict({"no_data_loss": True}, **extra), entry)
                if o[0] == "ok":
                    fails.append((f"no_data_loss/extra-tuple-items-accepted-next-to-an-addition-policy/{tname}", {"options": dict({"no_data_loss": True}, **extra), "result": codec.encode(o[1])}))
                    break
    if tname == "data":
        # unknown keys are rejected under no_data_loss - also when the option set spells out the default policy (addition=None:
        # "ignore them") beside the flag, as an argument or as a class attribute
        xx = _decode_for(x_spec, None, "plain")
        if isinstance(xx, dict) and any(k not in ("a", "b") for k in xx):
            for how, flags in (("argument", {"no_data_loss": True, "addition": None}), ("class-attribute", {"__class_attrs__": {"no_data_loss": True, "addition": None}})):
                o = run_one(x_spec, tname, flags, entry)
                if o[0] == "ok":
                    fails.append((f"no_data_loss/unknown-keys-dropped-next-to-addition-none/{how}", {"result": codec.encode(o[1])}))
                    break
    info = {"accepted": {k: v[0] == "ok" for k, v in res.items()}}
    if any(v[0] in ("other", "hang") for v in res.values()):
        info["other"] = True
    x = _decode_for(x_spec, None, "plain")
    for fname in ("ne", "ndl", "both"):
        o = res[fname]
        if o[0] != "ok":
            continue
        det = {"flags": fname, "result": codec.encode(o[1])}
        if base[0] == "perr":
            fails.append((f"restriction/accepted-only-with-flags/{fname}/{group_of(x)}->{tname}", dict(det, lenient_error=str(base[1])[:160])))
        elif base[0] == "ok" and tname.startswith("union:"):
            # a union picks a member in stages that depend on the flags: keyed by (flag set, target, source type, member chosen
            # with / without the flags) so that every distinct divergence is its own finding
            if not _unstable(x, o[1]) and (type(o[1]) is not type(base[1]) or not oracle.equal(o[1], base[1])):
                fails.append((f"restriction/union-member-depends-on-flags/{fname}/{tname}/{type(x).__name__}:{type(o[1]).__name__}-vs-{type(base[1]).__name__}",
                              dict(det, lenient=codec.encode(base[1]))))
        elif base[0] == "ok":
            if _unstable(x, o[1]):
                pass   # repr of an object with its address / set iteration order of NaN: not comparable across two decodes
            elif tname == "data":
                if not oracle.equal(oracle.plain(o[1]), oracle.plain(base[1])):
                    fails.append((f"restriction/different-value/{fname}/{group_of(x)}->{tname}", dict(det, lenient=codec.encode(base[1]))))
            elif type(o[1]) is not type(base[1]):
                fails.append((f"restriction/different-type/{fname}/{group_of(x)}->{tname}", dict(det, lenient=codec.encode(base[1]))))
            elif not oracle.equal(o[1], base[1]):
                fails.append((f"restriction/different-value/{fname}/{group_of(x)}->{tname}", dict(det, lenient=codec.encode(base[1]))))
        if fname in ("ndl", "both"):
            v = ndl_promises(x, tname, o[1])
            if v:
                fails.append((f"no_data_loss/{v}/{tname}", det))
        if fname in ("ne", "both"):
            v = ne_rule(x, tname, o[1])
            if v:
                fails.append((f"no_explicit_cast/{v}/{tname}", det))
    if base[0] == "ok":
        info["type_changed"] = type(base[1]) is not type(x)
    return fails, info


def run_case(case):
    try:
        x_spec, tname, entry = case["source"], case["target"], case["entry"]
    except (KeyError, TypeError):
        raise HarnessError("malformed case")
    if tname not in TARGETS or entry not in ("transform", "schema"):
        raise HarnessError("bad target/entry")
    _decode_for(x_spec, None, "plain")
    if _unordered_unstable(x_spec):
        # a set holding NaN or plain objects iterates in an order that differs between two decodes of the same spec
        return [], {"accepted": {k: False for k in ("none", "ne", "ndl", "both")}, "unstable_source": True}
    try:
        return judge_pair(x_spec, tname, entry)
    finally:
        from .. import dspec
        dspec.cleanup()


def judge(case):
    return run_case(case)[0]


def F(s):
    return {"t": "float", "v": s}


def D(s):
    return {"t": "decimal", "v": s}


def B(s):
    return {"t": "bytes", "v": s.encode("utf-8", "surrogatepass").hex()}


TABLE = [
    None, True, False, 0, 1, 2, -1, 7, 255, {"t": "int", "v": str(10 ** 30)}, 1577934245, 1577934245000,
    F("0.0"), F("1.0"), F("-0.0"), F("1.5"), F("3.1415"), F("2.0"), F("1e16"), F("nan"), F("inf"), F("-inf"), F("1577934245.5"),
    D("0"), D("1"), D("1.0"), D("1.50"), D("3.14"), D("1E+3"), D("NaN"), D("Infinity"), D("2"),
    {"t": "complex", "re": "1.0", "im": "0.0"}, {"t": "complex", "re": "1.0", "im": "2.0"},
    "", " ", "0", "1", "2", "1.0", "1.5", " 1 ", "1e3", "abc", "true", "True", "false", "yes", "no", "on", "off", "t", "y", "n", "null", "None",
    "nan", "inf", "[1, 2]", "[1]", "(1, 2)", "{1, 2}", "a,b", "1,2", '{"a": 1}', "{'a': 1, 'b': 'x'}", "a=1&b=2", "a=1;b=2",
    "2020-01-02", "2020-01-02 00:00:00", "2020-01-02 03:04:05", "2020-01-02T03:04:05", "2020-01-02T03:04:05Z", "2020-01-02T03:04:05+08:00",
    "2020-01-02 00:00:00.250000", "2020-01-02T00:00:00.000001", "2020-01-02 00:00:01", "2020-01-02 00:01:00", "2020-01-02 01:00:00",
    "2020-01-02T00:00:00.000", F("1577923200.5"), F("1577923200.0"), 1577923200, 1577923200250, B("2020-01-02 00:00:00.5"),
    "03:04:05", "P1DT2H", "1 02:03:04", "12345678-1234-5678-1234-567812345678", "red", "RED", "ONE", "a", "Some Value", "A", "B",
    B(""), B("1"), B("1.5"), B("abc"), B("true"), B("2020-01-02"), B("[1, 2]"), B('{"a": 1}'), B("red"), {"t": "bytes", "v": "ff"}, {"t": "bytes", "v": "61ff62"},
    {"t": "bytearray", "v": "31"}, {"t": "bytearray", "v": "32"}, {"t": "memoryview", "v": "31"},
    {"t": "list", "v": []}, {"t": "list", "v": [1]}, {"t": "list", "v": ["1"]}, {"t": "list", "v": [1, 2]}, {"t": "list", "v": [1, 2, 3]},
    {"t": "list", "v": ["a", "b"]}, {"t": "list", "v": [True]}, {"t": "list", "v": [None]}, {"t": "list", "v": [F("1.5")]},
    {"t": "list", "v": [{"t": "list", "v": ["a", 1]}, {"t": "list", "v": ["b", 2]}]}, {"t": "list", "v": [{"t": "dict", "v": [["a", 1], ["b", 2]]}]},
    {"t": "list", "v": [{"t": "dict", "v": [["a", 1]]}]}, {"t": "list", "v": ["red"]}, {"t": "list", "v": [B("1")]},
    {"t": "tuple", "v": []}, {"t": "tuple", "v": [1]}, {"t": "tuple", "v": [1, 2]}, {"t": "tuple", "v": ["1", "2", "3"]}, {"t": "tuple", "v": [F("1.0"), F("2.0")]},
    {"t": "set", "v": []}, {"t": "set", "v": [1]}, {"t": "set", "v": [1, 2]}, {"t": "frozenset", "v": ["a"]}, {"t": "deque", "v": [1, 2]},
    {"t": "iter", "v": [1, 2]}, {"t": "gen", "v": [1]}, {"t": "range", "v": [0, 2]},
    {"t": "dict", "v": []}, {"t": "dict", "v": [["a", 1]]}, {"t": "dict", "v": [["a", "1"], ["b", 2]]}, {"t": "dict", "v": [["a", 1], ["c", 3]]},
    {"t": "dict", "v": [[1, 2]]}, {"t": "sub", "b": "dict", "v": {"t": "dict", "v": [["a", 1]]}},
    {"t": "date", "v": "2020-01-02"}, {"t": "datetime", "v": "2020-01-02T00:00:00"}, {"t": "datetime", "v": "2020-01-02T03:04:05"},
    {"t": "datetime", "v": "2020-01-02T03:04:05+08:00"}, {"t": "time", "v": "03:04:05"}, {"t": "time", "v": "00:00:00"},
    {"t": "timedelta", "v": [1, 0, 0]}, {"t": "timedelta", "v": [0, 1, 500000]}, {"t": "uuid", "v": "12345678-1234-5678-1234-567812345678"},
    {"t": "enum", "e": "Color", "m": "RED"}, {"t": "enum", "e": "Num", "m": "ONE"}, {"t": "enum", "e": "Plain", "m": "A"}, {"t": "enum", "e": "Plain", "m": "B"},
    {"t": "sub", "b": "int", "v": 1}, {"t": "sub", "b": "str", "v": "1"}, {"t": "sub", "b": "float", "v": F("1.5")},
    {"t": "sub", "b": "list", "v": {"t": "list", "v": [1]}}, {"t": "obj"}, {"t": "cls", "v": "int"},
    # a one-item wrapper around a collection (the wrapper is unwrapped; what is inside must not be cut down silently)
    {"t": "list", "v": [{"t": "list", "v": [1, 2]}]}, {"t": "list", "v": [{"t": "list", "v": ["a", "b"]}]}, {"t": "list", "v": [{"t": "list", "v": [1]}]},
    {"t": "list", "v": [{"t": "list", "v": [{"t": "list", "v": [1, 2]}]}]}, {"t": "tuple", "v": [{"t": "list", "v": ["1.5", "2.5"]}]}, {"t": "list", "v": [{"t": "tuple", "v": [True, False]}]},
    {"t": "list", "v": [{"t": "set", "v": [1, 2]}]}, {"t": "list", "v": [{"t": "dict", "v": [["a", 1], ["b", 2]]}]},
    # instances of the target data class itself (plain dicts for the other targets), alone and in collections
    {"t": "tgt", "v": [["a", 1], ["b", "x"]]}, {"t": "list", "v": [{"t": "tgt", "v": [["a", 1]]}]},
    {"t": "list", "v": [{"t": "tgt", "v": [["a", 1]]}, {"t": "tgt", "v": [["a", 2], ["b", "y"]]}]},
    {"t": "tuple", "v": [{"t": "tgt", "v": [["a", 1]]}, {"t": "dict", "v": [["a", 2]]}, 3]},
    {"t": "list", "v": [{"t": "dict", "v": [["a", 1]]}, {"t": "dict", "v": [["a", 2]]}]},
]


def case_strategy():
    # union targets are judged on the exhaustive table only (their known divergences are listed one by one)
    tnames = st.sampled_from([t for t in TARGETS if not t.startswith("union:")])

    def src_for(tn):
        base = tn.split(":")[0] if not tn.startswith("sub:") else tn[4:]
        spec = None
        if tn in tspec.ORIGINS:
            spec = {"k": "leaf", "o": tn}
        elif tn.startswith("enum:"):
            spec = {"k": "enum", "e": tn[5:]}
        elif tn.startswith("sub:") and tn[4:] in tspec.ORIGINS:
            spec = {"k": "leaf", "o": tn[4:]}
        h = gen.hostile(max_leaves=6)
        if tn == "date":
            # date-time strings in which exactly one time component is non-zero (each one alone must block the conversion)
            timed = st.tuples(st.dates(min_value=dt.date(1971, 1, 1), max_value=dt.date(2999, 1, 1)), st.sampled_from(["T", " "]),
                              st.sampled_from(["00:00:00", "01:00:00", "00:01:00", "00:00:01", "00:00:00.5", "00:00:00.000001", "00:00:00.000",
                                               "23:59:59.999999"]), st.sampled_from(["", "", "Z", "+00:00"])).map(
                lambda t: t[0].isoformat() + t[1] + t[2] + (t[3] if t[1] == "T" else ""))
            return st.one_of(gen.conforming(spec), timed, timed.map(lambda s_: {"t": "bytes", "v": s_.encode().hex()}), h)
        if spec is None:
            return h
        return st.one_of(gen.conforming(spec), gen.conforming(spec), h)
    return tnames.flatmap(lambda tn: st.fixed_dictionaries({
        "source": src_for(tn), "target": st.just(tn), "entry": st.sampled_from(["transform", "transform", "schema"])}))


def campaign(ctx):
    def body(case):
        fails, info = run_case(case)
        acc = info["accepted"]
        ctx.label("accepted_" + "".join("1" if acc[k] else "0" for k in ("none", "ne", "ndl", "both")))
        if info.get("other"):
            ctx.label("other_exception")
        restricted = acc["none"] and not all(acc.values())
        changed = info.get("type_changed") and any(acc[k] for k in ("ne", "ndl", "both"))
        if restricted:
            ctx.label("restricted_by_flag")
        if changed:
            ctx.label("accepted_under_flag_with_type_change")
        if restricted or changed:
            ctx.nt(case)
            ctx.sample("restricted" if restricted else "converted-under-flag", case)
        ctx.fail_all(fails, case)

    # exhaustive table (split over the shards)
    n = 0
    pairs = [(s, t, e) for s in TABLE for t in TARGETS for e in ("transform", "schema")]
    for i, (s, t, e) in enumerate(pairs):
        if i % ctx.nshards != ctx.shard:
            continue
        ctx.ev()
        n += 1
        body({"source": s, "target": t, "entry": e, "part": "table"})
    ctx.extra["table_pairs"] = n
    ctx.extra["table_sources"] = len(TABLE)
    ctx.extra["table_exhaustive"] = True
    ctx.run_given(case_strategy(), body, max_examples=ctx.n(1500, 15000))
    from .. import core as _core
    import sys as _sys
    _core.fuzz_tier_hyp(ctx, _sys.modules[__name__])
