"""C08 - decorated functions get Python's binding with conforming arguments and result.

Generated: signatures over the five parameter kinds (source text is generated and exec-ed), annotations from a pool
(int, str, PositiveInt, List[int], Optional[int], a small Schema, none), defaults (plain, Param(default=),
Param(default_factory=), Param(alias_from=, case_insensitive=)), *args: T, **kwargs: T, a return annotation;
context (function, instance method, classmethod, staticmethod); wrapper kind (sync, coroutine, generator, async
generator; eager or not); calls built from a logical assignment parameter -> value (valid / convertible / invalid)
and re-spelled (by position, by name, by alias, by case variant) so that Python's own bind succeeds on the
canonical spelling.
Oracle: reference = the logical assignment itself, each annotated value replaced by its standalone parse with the
parameter's type, omitted parameters set to their declared defaults; the generated body records what it received.
All spellings give the same recorded binding.  Any invalid parameter => ParseError and the body did not run.  The
return value equals the standalone parse of the raw return value with the return annotation.  Generators: a script
of next / send(v) is run; yielded values (parsed by the yield type), values received by the body (parsed by the
send type) and the final return value (parsed by the return type) must be those of the undecorated generator.
"""
import inspect
import sys
import types

from hypothesis import strategies as st

from .. import codec, oracle
from ..core import HarnessError
from .c01 import decl_errors

ID = "C08"
RULE = ("(signature, context, wrapper kind, logical call, spelling); non-trivial = at least two parameter kinds present and at least one parameter passed in a "
        "non-default spelling (keyword for a positional-or-keyword parameter, alias, case variant) or converted, or a generator script with a send; distinct = hash of the case")
ASSUMPTIONS = [
    "standalone parse of one value = utype.type_transform(value, annotation) (conversion itself is judged by C01/C02; this check judges binding)",
    "declared defaults are handed to the body as they are (trusted, not converted)",
    "documented deviations excluded by construction: Param() without default is required; generators yielding generators; addition options on functions without **kwargs",
    "private (_x) positional parameters follow docs/en/guide/func.md 'Private parameters': not parsed (given by position they arrive as they are), ignored when given by name (only generated with a default to stand and without **kwargs), their own default when omitted",
    "coroutines and async generators are driven without an event loop (send(None)), so runs are deterministic",
]
SHARDS = {"quick": 4, "thorough": 16}

ANNS = {
    "none": None, "int": "int", "str": "str", "pos": "Pos", "list": "List[int]", "opt": "Optional[int]", "data": "Item", "float": "float", "null": "None",
}
VALS = {
    "none": [1, "x", None, {"t": "list", "v": [1]}],
    "int": [3, "4", {"t": "float", "v": "5.0"}, True, "x", None, {"t": "list", "v": [1, 2]}],
    "str": ["ab", 7, {"t": "bytes", "v": "6162"}, "", {"t": "list", "v": ["q"]}],
    "pos": [2, "3", 0, -1, "x", {"t": "float", "v": "1.5"}],
    "list": [{"t": "list", "v": [1, "2"]}, {"t": "tuple", "v": [3]}, "1,2", {"t": "list", "v": ["x"]}, 5, "[4]"],
    "opt": [None, 4, "5", "x", ""],
    "data": [{"t": "dict", "v": [["n", 1]]}, {"t": "dict", "v": [["n", "2"], ["t", "ab"]]}, {"t": "dict", "v": []}, {"t": "dict", "v": [["n", "x"]]}, '{"n": 3}', 5],
    "float": [{"t": "float", "v": "1.5"}, 2, "2.5", "x"],
    "null": [None, "null", 1, "x", 0],
}
PRELUDE = '''
import utype
from typing import *
from utype import Param

class Pos(int, utype.Rule):
    gt = 0

class Item(utype.Schema):
    n: int
    t: str = utype.Field(max_length=3, default='')

REC = {}
'''
_n = [0]


def types_of(mod):
    import typing
    from utype.parser.rule import Rule
    return {"none": None, "int": int, "str": str, "pos": mod.Pos, "list": Rule.parse_annotation(typing.List[int]),
            "opt": Rule.parse_annotation(typing.Optional[int]), "data": mod.Item, "float": float, "null": type(None)}


def validate_sig(sig):
    try:
        names = set()
        order = {"posonly": 0, "pos": 1, "varargs": 2, "kwonly": 3, "varkw": 4}
        last = -1
        seen_default = False
        for p in sig["params"]:
            if p["kind"] not in order or p["ann"] not in ANNS or not p["name"].isidentifier() or p["name"] in names or p["name"].startswith("_") != bool(p.get("priv")):
                raise HarnessError("bad param")
            if p.get("priv") and (p["kind"] not in ("posonly", "pos") or p.get("alias") or p.get("alias_from") or p.get("ci") or p.get("no_input")
                                  or (p.get("default") or {}).get("form", "plain") != "plain"):
                raise HarnessError("a private parameter is positional, with a plain default or none")
            if p["name"] in ("self", "cls", "REC", "args", "kw") and p["kind"] not in ("varargs", "varkw"):
                raise HarnessError("reserved name")
            names.add(p["name"])
            if order[p["kind"]] < last:
                raise HarnessError("bad kind order")
            last = order[p["kind"]]
            if p["kind"] in ("posonly", "pos"):
                if p.get("default"):
                    seen_default = True
                elif seen_default:
                    raise HarnessError("non-default after default")
            if p["kind"] in ("varargs", "varkw") and p.get("default"):
                raise HarnessError("default on var param")
        if sum(1 for p in sig["params"] if p["kind"] == "varargs") > 1 or sum(1 for p in sig["params"] if p["kind"] == "varkw") > 1:
            raise HarnessError("duplicate var params")
        if sig.get("wrapper", "sync") not in ("sync", "coro", "gen", "asyncgen") or sig.get("context", "function") not in ("function", "method", "classmethod", "staticmethod"):
            raise HarnessError("bad wrapper/context")
    except (KeyError, TypeError):
        raise HarnessError("malformed signature")


def _alias_kw(p):
    out = ""
    if p.get("alias"):
        out += f", alias={p['alias']!r}"
    if p.get("alias_from"):
        out += f", alias_from={p['alias_from']!r}"
    if p.get("ci"):
        out += ", case_insensitive=True"
    if p.get("no_input"):
        out += ", no_input=True"
    return out


def default_src(p):
    d = p.get("default")
    if not d:
        return ""
    v = repr(codec.decode(d["v"])) if "v" in d else None
    alias = _alias_kw(p)
    if d["form"] == "plain":
        return f" = {v}"
    if d["form"] == "param":
        return f" = Param(default={v}{alias})"
    if d["form"] == "factory":
        return f" = Param(default_factory=lambda: {v}{alias})"
    raise HarnessError("bad default form")


def render(sig, sfx):
    """-> source of the raw function / class, name of the callable path"""
    params = []
    kinds = [p["kind"] for p in sig["params"]]
    for i, p in enumerate(sig["params"]):
        ann = f": {ANNS[p['ann']]}" if ANNS[p["ann"]] else ""
        if p["kind"] == "varargs":
            params.append(f"*{p['name']}{ann}")
        elif p["kind"] == "varkw":
            params.append(f"**{p['name']}{ann}")
        else:
            d = default_src(p)
            if not d and (p.get("alias_from") or p.get("alias") or p.get("ci")):
                d = " = Param(" + _alias_kw(p).lstrip(", ") + ")"
            if p["kind"] == "kwonly" and "varargs" not in kinds and (i == 0 or sig["params"][i - 1]["kind"] != "kwonly"):
                params.append("*")
            params.append(f"{p['name']}{ann}{d}")
            if p["kind"] == "posonly" and (i + 1 == len(sig["params"]) or sig["params"][i + 1]["kind"] != "posonly"):
                params.append("/")
    wrapper, ctx = sig.get("wrapper", "sync"), sig.get("context", "function")
    ret = sig.get("ret")
    rann = ANNS.get(ret) if ret else None
    if wrapper in ("gen", "asyncgen"):
        y, s_ = ANNS.get(sig.get("yield_t") or "none"), ANNS.get(sig.get("send_t") or "none")
        if wrapper == "gen":
            rann = f"Generator[{y or 'Any'}, {s_ or 'Any'}, {rann or 'Any'}]"
        else:
            rann = f"AsyncGenerator[{y or 'Any'}, {s_ or 'Any'}]"
    first = {"function": [], "method": ["self"], "classmethod": ["cls"], "staticmethod": []}[ctx]
    head = f"{'async ' if wrapper in ('coro', 'asyncgen') else ''}def f({', '.join(first + params)}){' -> ' + rann if rann else ''}:"
    rec = ", ".join(f"{p['name']}={p['name']}" for p in sig["params"])
    body = [f"    REC['entered'] = True", f"    REC['locals'] = dict({rec})"]
    if wrapper in ("gen", "asyncgen"):
        body += ["    REC['sent'] = []", "    for _v in REC['yields']:", "        _s = yield _v", "        REC['sent'].append(_s)"]
        if wrapper == "gen":
            body.append("    return REC['ret']")
    else:
        body.append("    return REC['ret']")
    fn = [head] + body
    if ctx == "function":
        return "\n".join(fn) + "\n"
    deco = {"method": "", "classmethod": "    @classmethod\n", "staticmethod": "    @staticmethod\n"}[ctx]
    return "class K:\n" + deco + "\n".join("    " + line for line in fn) + "\n"


def _deco_args(sig):
    parts = []
    if sig.get("eager"):
        parts.append("eager=True")
    o = sig.get("options") or {}
    for k in o:
        if k not in ("data_first_search", "case_insensitive", "collect_errors", "addition"):
            raise HarnessError("bad function option")
    if o:
        parts.append("options=utype.Options(" + ", ".join(f"{k}={v!r}" for k, v in sorted(o.items())) + ")")
    return ", ".join(parts)


def build(sig, decorated):
    import utype
    _n[0] += 1
    name = f"vf_c08_m{_n[0]}"
    mod = types.ModuleType(name)
    sys.modules[name] = mod
    exec(compile(PRELUDE, name, "exec"), mod.__dict__)
    src = render(sig, "")
    ctx = sig.get("context", "function")
    eager = bool(sig.get("eager"))
    if decorated:
        if ctx == "function":
            src = src.replace("def f(", "def f(", 1)
            lines = src.split("\n")
            i = next(j for j, l in enumerate(lines) if l.lstrip().startswith(("def f(", "async def f(")))
            lines.insert(i, f"@utype.parse({_deco_args(sig)})")
            src = "\n".join(lines)
        elif sig.get("class_deco"):
            src = "@utype.parse\n" + src
        else:
            lines = src.split("\n")
            i = next(j for j, l in enumerate(lines) if l.lstrip().startswith(("def f(", "async def f(")))
            first = next((p for p in sig["params"] if p["kind"] in ("posonly", "pos")), None)
            looks_like_self = first is not None and ANNS[first["ann"]] is None and not first.get("default") and not first.get("alias_from")
            if ctx == "staticmethod" and (looks_like_self or sig.get("parse_outside")):
                # below @staticmethod the parser can only guess, and guesses 'instance method' for an unannotated first parameter
                # without default: the decorator goes outside there (documented as equivalent)
                lines.insert(i - 1, f"    @utype.parse({_deco_args(sig)})")
            else:
                # the parse decorator goes innermost (below classmethod / staticmethod)
                lines.insert(i, f"    @utype.parse({_deco_args(sig)})")
            src = "\n".join(lines)
    exec(compile(src, name, "exec"), mod.__dict__)
    if ctx == "function":
        f = mod.f
    elif ctx == "method":
        f = mod.K().f
    else:
        f = mod.K.f
    return mod, f


def drop(mod):
    from utype.parser import base
    for k in [k for k in base.__parsers__ if getattr(k, "__module__", None) == mod.__name__]:
        base.__parsers__.pop(k, None)
    sys.modules.pop(mod.__name__, None)


def parse_one(T, v):
    import utype
    if T is None:
        return ("ok", v)
    return oracle.reject_raw(oracle.outcome(utype.type_transform, v, T))


def spell_call(sig, assign, spell):
    """(args, kwargs) of the call that the logical assignment and its spelling describe (no oracle work)"""
    args, kw = [], {}
    for p in sig["params"]:
        n, k = p["name"], p["kind"]
        if k == "varargs":
            args += [codec.decode(v) for v in assign.get(n, [])]
        elif k == "varkw":
            for key, v in assign.get(n, []):
                kw[key] = codec.decode(v)
        elif n in assign:
            v = codec.decode(assign[n])
            how = spell.get(n, "position" if k in ("posonly", "pos") else "name")
            if k == "posonly" or (how == "position" and k == "pos"):
                args.append(v)
            elif how == "alias" and p.get("alias"):
                kw[p["alias"]] = v
            elif how == "alias" and p.get("alias_from"):
                kw[p["alias_from"][0]] = v
            elif how == "case" and p.get("ci"):
                kw[n.upper()] = v
            else:
                kw[n] = v
    return args, kw


def drive(f, args, kw, wrapper, script):
    """run the callable according to the wrapper kind -> ('ok', {'ret':..., 'yielded': [...]} ) or ('exc', e)"""
    res = {"yielded": [], "ret": None}
    try:
        if wrapper == "sync":
            res["ret"] = f(*args, **kw)
        elif wrapper == "coro":
            co = f(*args, **kw)
            try:
                co.send(None)
                co.close()
                raise HarnessError("coroutine suspended")
            except StopIteration as s:
                res["ret"] = s.value
        elif wrapper == "gen":
            g = f(*args, **kw)
            try:
                for act in script:
                    res["yielded"].append(next(g) if act[0] == "next" else g.send(codec.decode(act[1])))
                g.close()
                res["closed_early"] = True
            except StopIteration as s:
                res["ret"] = s.value
        else:
            ag = f(*args, **kw)
            try:
                for act in script:
                    aw = ag.__anext__() if act[0] == "next" else ag.asend(codec.decode(act[1]))
                    try:
                        aw.send(None)
                        raise HarnessError("async generator suspended")
                    except StopIteration as s:
                        res["yielded"].append(s.value)
                res["closed_early"] = True
            except StopAsyncIteration:
                pass
        return ("ok", res)
    except HarnessError:
        raise
    except BaseException as e:
        if isinstance(e, (KeyboardInterrupt, SystemExit)):
            raise
        return ("exc", e, res)


def run_case(case):
    try:
        sig, assign, spell = case["sig"], case["assign"], case.get("spell") or {}
    except (KeyError, TypeError):
        raise HarnessError("malformed case")
    validate_sig(sig)
    wrapper = sig.get("wrapper", "sync")
    script = case.get("script") or []
    yields = case.get("yields") or []
    if wrapper in ("gen", "asyncgen"):
        if not script or script[0][0] != "next":
            raise HarnessError("a generator script starts with next")
    try:
        mod, f = build(sig, decorated=True)
    except HarnessError:
        raise
    except decl_errors():
        return {"status": "discarded", "fails": []}
    except (StopIteration, SyntaxError):
        raise HarnessError("cannot render")
    try:
        T = types_of(mod)
        by = {p["name"]: p for p in sig["params"]}
        # ---- expected binding from the logical assignment
        expected, invalid = {}, []
        args, kw = [], {}
        positional_open = True
        for p in sig["params"]:
            n, k = p["name"], p["kind"]
            if k == "varargs":
                vals = [codec.decode(v) for v in assign.get(n, [])]
                if vals and not positional_open:
                    raise HarnessError("*args after a keyword-passed positional")
                conv = []
                for i, v in enumerate(vals):
                    r = parse_one(T[p["ann"]], v)
                    if r[0] != "ok":
                        invalid.append(f"*{n}:{i}")
                    else:
                        conv.append(r[1])
                expected[n] = tuple(conv)
                args += vals
            elif k == "varkw":
                items = assign.get(n, [])
                d = {}
                for key, v in items:
                    # (a keyword spelled like a positional-only parameter is an ordinary extra keyword for Python)
                    if (key in by and by[key]["kind"] != "posonly") or not isinstance(key, str) or not key.isidentifier():
                        raise HarnessError("bad extra keyword")
                    vv = codec.decode(v)
                    r = parse_one(T[p["ann"]], vv)
                    if r[0] != "ok":
                        invalid.append(f"**{n}:{key}")
                    else:
                        d[key] = r[1]
                    kw[key] = vv
                expected[n] = d
            else:
                if n in assign:
                    v = codec.decode(assign[n])
                    r = parse_one(T[p["ann"]], v)
                    how = spell.get(n, "position" if k in ("posonly", "pos") else "name")
                    if p.get("priv"):
                        # documented ('Private parameters'): takes no part in parsing - given by position it arrives as it is,
                        # given by name it is ignored (the default stands)
                        if how == "position" or k == "posonly":
                            expected[n] = v
                        elif not p.get("default") or any(q["kind"] == "varkw" for q in sig["params"]):
                            raise HarnessError("a private parameter by name needs a default and no **kwargs")
                        else:
                            expected[n] = codec.decode(p["default"]["v"])
                    elif p.get("no_input"):
                        # documented: the parameter takes no input - it receives its default whatever (and however) the call passes it
                        expected[n] = codec.decode(p["default"]["v"])
                    elif r[0] != "ok":
                        invalid.append(n)
                    else:
                        expected[n] = r[1]
                    if k == "posonly" or (how == "position" and k == "pos"):
                        if not positional_open:
                            raise HarnessError("positional after keyword")
                        args.append(v)
                    else:
                        positional_open = False if k == "pos" else positional_open
                        if how == "alias" and p.get("alias"):
                            kw[p["alias"]] = v
                        elif how == "alias" and p.get("alias_from"):
                            kw[p["alias_from"][0]] = v
                        elif how == "case" and p.get("ci"):
                            kw[n.upper()] = v
                        else:
                            kw[n] = v
                else:
                    d = p.get("default")
                    if not d:
                        raise HarnessError("required parameter without a value")
                    expected[n] = codec.decode(d["v"])
                    if k in ("posonly", "pos"):
                        positional_open = False
        # precondition: Python itself binds the canonical spelling
        rmod, raw = build(sig, decorated=False)
        try:
            canon_kw = {}
            for key, v in kw.items():
                target = next((p["name"] for p in sig["params"] if (p.get("alias_from") and key in p["alias_from"]) or key == p.get("alias")), None) or \
                    next((p["name"] for p in sig["params"] if p.get("ci") and key.lower() == p["name"].lower() and p["kind"] not in ("varargs", "varkw")), key)
                canon_kw[target] = v
            try:
                inspect.signature(raw).bind(*args, **canon_kw)
            except TypeError:
                raise HarnessError("Python would not bind this call")
        finally:
            drop(rmod)
        # ---- run
        ret_raw = codec.decode(case.get("ret_raw")) if "ret_raw" in case else None
        prior = case.get("prior")
        if prior:
            mod.REC.clear()
            mod.REC.update(entered=False, ret=ret_raw, yields=[codec.decode(y) for y in yields])
            try:
                pargs, pkw = spell_call(sig, prior["assign"], prior.get("spell") or {})
                drive(f, pargs, pkw, wrapper, script)
            except HarnessError:
                pass
        mod.REC.clear()
        mod.REC.update(entered=False, ret=ret_raw, yields=[codec.decode(y) for y in yields])
        out = drive(f, args, kw, wrapper, script)
        entered = mod.REC.get("entered")
        fails = []
        kinds = "+".join(sorted({p["kind"] for p in sig["params"]})) or "-"
        det = {"args": codec.encode(args), "kwargs": codec.encode(kw), "invalid": invalid, "context": sig.get("context", "function"), "wrapper": wrapper}
        PE = oracle.perr_cls()
        if invalid:
            if out[0] == "ok":
                fails.append((f"invalid-parameter-accepted/{_pk(invalid[0])}/{wrapper}", dict(det, received=codec.encode(mod.REC.get("locals")))))
            elif not isinstance(out[1], PE):
                fails.append((f"invalid-parameter-raises-{type(out[1]).__name__}/{_pk(invalid[0])}/{wrapper}", dict(det, error=str(out[1])[:200])))
            elif entered:
                fails.append((f"body-entered-although-a-parameter-is-invalid/{_pk(invalid[0])}/{wrapper}", det))
            return {"status": "rejected", "fails": fails, "kinds": kinds}
        # all parameters valid
        got = mod.REC.get("locals")
        if not entered or got is None:
            e = out[1] if out[0] == "exc" else None
            fails.append((f"valid-call-refused/{type(e).__name__ if e is not None else 'body-not-entered'}/{wrapper}/{sig.get('context', 'function')}",
                          dict(det, error=str(e)[:300] if e is not None else None)))
            return {"status": "refused", "fails": fails, "kinds": kinds}
        for n, want in expected.items():
            if n not in got or not oracle.equal(oracle.plain(got[n]), oracle.plain(want)):
                fails.append((f"binding-differs/{by[n]['kind']}/{_how(by[n], assign, spell)}/{wrapper}{'/private' if by[n].get('priv') else ''}",
                              dict(det, parameter=n, expected=codec.encode(oracle.plain(want)), received=codec.encode(oracle.plain(got.get(n))))))
                break
        # return / generator protocol
        Tr = T.get(sig.get("ret") or "none")
        if wrapper in ("sync", "coro"):
            want_ret = parse_one(Tr, ret_raw) if ret_raw is not None else ("ok", None)
            if want_ret[0] == "ok":
                if out[0] != "ok":
                    fails.append((f"valid-return-refused/{type(out[1]).__name__}/{wrapper}", dict(det, error=str(out[1])[:200])))
                elif not oracle.equal(oracle.plain(out[1]["ret"]), oracle.plain(want_ret[1])):
                    fails.append((f"return-value-differs/{wrapper}", dict(det, expected=codec.encode(oracle.plain(want_ret[1])), got=codec.encode(oracle.plain(out[1]["ret"])))))
            elif out[0] == "ok":
                fails.append((f"invalid-return-accepted/{wrapper}", dict(det, got=codec.encode(oracle.plain(out[1]["ret"])))))
            elif not isinstance(out[1], PE):
                fails.append((f"invalid-return-raises-{type(out[1]).__name__}/{wrapper}", det))
        else:
            fails += judge_generator(case, sig, T, out, mod, det, wrapper, script, yields, ret_raw)
        return {"status": "accepted", "fails": fails[:2], "kinds": kinds, "converted": any(
            n in assign and by[n]["kind"] not in ("varargs", "varkw") and not oracle.equal(expected.get(n), codec.decode(assign[n])) for n in expected)}
    finally:
        drop(mod)


def judge_generator(case, sig, T, out, mod, det, wrapper, script, yields, ret_raw):
    """reference run of the script on the undecorated semantics, with conversions applied by the oracle"""
    Ty, Ts, Tr = T.get(sig.get("yield_t") or "none"), T.get(sig.get("send_t") or "none"), T.get(sig.get("ret") or "none")
    exp_y, exp_sent = [], []
    i = 0
    finished = False
    for act in script:
        # each action resumes the body: it delivers the sent value (None for next) and runs to the next yield
        if i > 0:
            sv = None if act[0] == "next" else codec.decode(act[1])
            if sv is not None and Ts is not None:
                r = parse_one(Ts, sv)
                if r[0] != "ok":
                    return []      # scripts use valid sends only
                sv = r[1]
            exp_sent.append(sv)
        if i >= len(yields):
            finished = True
            break
        r = parse_one(Ty, codec.decode(yields[i]))
        if r[0] != "ok":
            return []
        exp_y.append(r[1])
        i += 1
    fails = []
    want = parse_one(Tr, ret_raw) if (ret_raw is not None and wrapper == "gen") else ("ok", None)
    if out[0] != "ok":
        if finished and want[0] != "ok" and isinstance(out[1], oracle.perr_cls()):
            return []     # the raw return value does not fit the return type: refusing it at the end is right
        return [(f"generator-script-refused/{type(out[1]).__name__}/{wrapper}", dict(det, error=str(out[1])[:200], script=script))]
    got = out[1]
    if not oracle.equal(oracle.plain(got["yielded"]), oracle.plain(exp_y)):
        fails.append((f"yielded-values-differ/{wrapper}{'/eager' if sig.get('eager') else ''}", dict(det, expected=codec.encode(exp_y), got=codec.encode(oracle.plain(got["yielded"])), script=script)))
    sent = mod.REC.get("sent") or []
    if not oracle.equal(oracle.plain(sent[:len(exp_sent)]), oracle.plain(exp_sent)):
        fails.append((f"sent-values-differ/{wrapper}{'/eager' if sig.get('eager') else ''}", dict(det, expected=codec.encode(exp_sent), got=codec.encode(oracle.plain(sent)), script=script)))
    if finished and wrapper == "gen":
        if want[0] != "ok":
            fails.append((f"invalid-generator-return-accepted/{wrapper}", dict(det, got=codec.encode(oracle.plain(got["ret"])))))
        if want[0] == "ok" and not oracle.equal(oracle.plain(got["ret"]), oracle.plain(want[1])):
            fails.append((f"generator-return-differs/{wrapper}", dict(det, expected=codec.encode(oracle.plain(want[1])), got=codec.encode(oracle.plain(got["ret"])))))
    return fails


def _pk(item):
    return "varargs" if item.startswith("*") and not item.startswith("**") else "varkw" if item.startswith("**") else "named"


def _how(p, assign, spell):
    if p["name"] not in assign:
        return "default"
    return spell.get(p["name"], "position" if p["kind"] in ("posonly", "pos") else "name")


def judge(case):
    try:
        return run_case(case)["fails"]
    except (KeyError, IndexError, TypeError, AttributeError) as e:
        raise HarnessError(f"malformed case: {e}")


# -- strategies ------------------------------------------------------------------------------------------------

PNAMES = ["a", "b", "c", "d", "e", "g"]


@st.composite
def cases(draw):
    n_posonly = draw(st.sampled_from([0, 0, 1, 2]))
    n_pos = draw(st.integers(0, 2))
    has_args = draw(st.booleans())
    n_kwonly = draw(st.integers(0, 2))
    has_kw = draw(st.booleans())
    params = []
    names = iter(PNAMES)
    defaults_started = False
    for kind, cnt in (("posonly", n_posonly), ("pos", n_pos)):
        for _ in range(cnt):
            ann = draw(st.sampled_from(list(ANNS)))
            p = {"name": next(names), "kind": kind, "ann": ann}
            priv = draw(st.sampled_from([False] * 5 + [True]))
            if priv:
                p["name"], p["priv"] = "_" + p["name"], True
            if defaults_started or draw(st.sampled_from([False, False, True])):
                defaults_started = True
                good = [v for v in VALS[ann][:2]]
                p["default"] = {"form": "plain" if priv else draw(st.sampled_from(["plain", "param", "factory"])), "v": draw(st.sampled_from(good))}
            if p.get("default", {}).get("form") in ("param", "factory") and draw(st.sampled_from([False, False, False, True])):
                p["no_input"] = True
            if kind == "pos" and not priv and draw(st.sampled_from([False, False, True])):
                if draw(st.booleans()):
                    p["alias_from"] = [p["name"].upper() + "_alt"]
                else:
                    p["alias"] = p["name"] + "Alias"
                p["ci"] = draw(st.booleans())
                if p.get("default", {}).get("form") == "plain":
                    p["default"]["form"] = "param"
            params.append(p)
    if has_args:
        params.append({"name": "args", "kind": "varargs", "ann": draw(st.sampled_from(["none", "int", "pos", "str", "data"]))})
    for _ in range(n_kwonly):
        ann = draw(st.sampled_from(list(ANNS)))
        p = {"name": next(names), "kind": "kwonly", "ann": ann}
        if draw(st.booleans()):
            p["default"] = {"form": draw(st.sampled_from(["plain", "param", "factory"])), "v": draw(st.sampled_from(VALS[ann][:2]))}
        if draw(st.sampled_from([False, False, True])):
            p["alias_from"] = [p["name"].upper() + "_alt"]
            p["ci"] = draw(st.booleans())
            if p.get("default", {}).get("form") == "plain":
                p["default"]["form"] = "param"
        params.append(p)
    if has_kw:
        params.append({"name": "kw", "kind": "varkw", "ann": draw(st.sampled_from(["none", "int", "pos", "str"]))})
    wrapper = draw(st.sampled_from(["sync", "sync", "sync", "coro", "gen", "asyncgen"]))
    sig = {"params": params, "wrapper": wrapper, "context": draw(st.sampled_from(["function", "function", "method", "classmethod", "staticmethod"])),
           "ret": draw(st.sampled_from([None, "int", "pos", "str", "list", "data", "null"]))}
    if draw(st.sampled_from([False, False, True])):
        sig["options"] = {"data_first_search": True}
    if draw(st.sampled_from([False, False, True])):
        sig.setdefault("options", {})["collect_errors"] = True
    if has_kw and draw(st.sampled_from([False, False, True])):
        # the declared **kwargs (and its annotation) decide about extra keywords, whatever the decorator's options say about `addition`
        sig.setdefault("options", {})["addition"] = draw(st.booleans())
    if wrapper in ("gen", "asyncgen"):
        sig["yield_t"] = draw(st.sampled_from(["none", "int", "str", "pos"]))
        sig["send_t"] = draw(st.sampled_from(["none", "int", "str"]))
        sig["eager"] = draw(st.booleans())
    # logical assignment
    def draw_assignment():
        assign, spell = {}, {}
        keyword_mode = False
        for p in params:
            n, k = p["name"], p["kind"]
            if k == "varargs":
                if not keyword_mode:
                    assign[n] = draw(st.lists(st.sampled_from(VALS[p["ann"]]), max_size=3))
            elif k == "varkw":
                keys = draw(st.lists(st.sampled_from(["x1", "x2", "zz"] + [q["name"] for q in params if q["kind"] == "posonly"]), max_size=2, unique=True))
                assign[n] = [[key, draw(st.sampled_from(VALS[p["ann"]]))] for key in keys]
            else:
                provide = not p.get("default") or draw(st.booleans())
                if k in ("posonly", "pos") and keyword_mode and k == "posonly":
                    provide = False if p.get("default") else provide
                if not provide:
                    if k in ("posonly", "pos"):
                        keyword_mode = True
                    continue
                pool = VALS[p["ann"]]
                v = draw(st.sampled_from(pool[:3] + pool[:3] + pool))
                assign[n] = v
                if k == "pos":
                    how = "position" if not keyword_mode and draw(st.booleans()) else draw(st.sampled_from(["name", "name", "alias", "case"]))
                    if p.get("priv") and how != "position" and (has_kw or not p.get("default")):
                        # (by name a private parameter is documented as ignored: only meaningful with a default to stand)
                        how = "position"
                        if keyword_mode:
                            del assign[n]
                            continue
                    if how != "position":
                        keyword_mode = True
                    spell[n] = how
                elif k == "kwonly":
                    spell[n] = draw(st.sampled_from(["name", "name", "alias", "case"]))
                elif keyword_mode:
                    # a positional-only parameter after a gap cannot be passed: drop it if it has a default, else regenerate
                    if p.get("default"):
                        del assign[n]
        return assign, spell
    assign, spell = draw_assignment()
    case = {"sig": sig, "assign": assign, "spell": spell}
    if draw(st.sampled_from([False, False, True])):
        # an earlier call of the same decorated function (valid or not): what it leaves behind must not reach the judged call
        pa, ps = draw_assignment()
        case["prior"] = {"assign": pa, "spell": ps}
    rpool = {"int": [3, "4", "x"], "pos": [2, 0, "5"], "str": ["r", 9], "list": [{"t": "list", "v": [1, "2"]}, "x"], "data": [{"t": "dict", "v": [["n", "1"]]}, {"t": "dict", "v": []}], None: [1, "z", None], "null": [None, None, 5, "null", ""]}
    case["ret_raw"] = draw(st.sampled_from(rpool[sig["ret"]]))
    if wrapper in ("gen", "asyncgen"):
        ypool = {"none": [1, "a"], "int": [1, "2", {"t": "float", "v": "3.0"}], "str": ["a", 5], "pos": [1, "2"]}[sig["yield_t"]]
        spool = {"none": [1, "a", 0], "int": [5, "6", {"t": "float", "v": "0.0"}, False, {"t": "float", "v": "2.0"}],
                 "str": ["s", 7, 0, {"t": "bytes", "v": ""}, {"t": "bytes", "v": "62"}]}[sig["send_t"]]
        case["yields"] = draw(st.lists(st.sampled_from(ypool), min_size=1, max_size=4))
        script = [["next"]]
        for _ in range(draw(st.integers(0, 4))):
            script.append(["send", draw(st.sampled_from(spool))] if draw(st.booleans()) else ["next"])
        case["script"] = script
    return case


def campaign(ctx):
    def body(case):
        try:
            r = run_case(case)
        except HarnessError as e:
            if "Python would not bind" in str(e) or "positional after keyword" in str(e) or "*args after" in str(e) or "required parameter" in str(e):
                ctx.label("discarded_unbindable_call")
                return
            raise
        ctx.label(f"status_{r['status']}")
        sig = case["sig"]
        ctx.label(f"wrapper_{sig['wrapper']}")
        ctx.label(f"context_{sig['context']}")
        if any(p.get("priv") for p in sig["params"]):
            ctx.label("private_parameter_" + ("omitted" if any(p.get("priv") and p["name"] not in case["assign"] for p in sig["params"]) else "given"))
        if r["status"] in ("accepted", "rejected"):
            kinds = {p["kind"] for p in sig["params"]}
            nondefault = any(v != "position" for v in case["spell"].values()) or r.get("converted")
            has_send = any(a[0] == "send" for a in case.get("script") or [])
            if (len(kinds) >= 2 and nondefault) or has_send:
                ctx.nt(case)
                ctx.sample(sig["wrapper"], case)
        ctx.fail_all(r["fails"], case)
    ctx.run_given(cases(), body, max_examples=ctx.n(1200, 12000))
