"""C17 - forward references and declaration order do not change behaviour.

Generated: small systems of 2-4 data classes (+ an optional constrained type and an optional decorated function) with
a reference graph (self, mutual, the same target named in several annotations of one class, references inside
List/Dict/Optional/Union/Tuple and nested twice, Field constraints on a referenced constrained type, *args/**kwargs
and return annotations); every reference gets a spelling (direct name, 'string', string inside a generic, whole
annotation string, module with `from __future__ import annotations`, classes local to a function), plus a
definition order and a first-use order.  The program is rendered to source and exec-ed in a fresh module per case.
Oracle (differential): the same system rendered with direct references only - acyclic by unrolling every class into
levels N_0 .. N_K (K > depth of the generated inputs) emitted bottom-up.  Inputs (valid and invalid at every level)
go through both; plain results and error kinds must be equal, from the first call on, for every first-use order.
A second generated scenario puts two systems with the SAME class names into two modules.
"""
import re
import sys
import types

from hypothesis import strategies as st

from .. import codec, dspec, oracle
from ..core import HarnessError
from .c01 import decl_errors

ID = "C17"
RULE = ("(program: classes x reference graph x spelling per reference x definition order x future-annotations x local scope, first-use order, inputs); "
        "non-trivial = at least one reference that cannot be resolved when its class is created (target defined later, or self) and is exercised by an "
        "input; distinct = hash of the case Besides the programs: exhaustive grids of same-named classes in two modules, subclasses of classes with pending references, declarations local to a function naming a later module-level class, and one reference name shared by several annotations (each case non-trivial: a reference is unresolved at declaration time).")
ASSUMPTIONS = [
    "reference semantics = the same system written with direct references, unrolled to K=3 levels (inputs are at most 3 levels deep)",
    "documented limitation excluded by construction: a class local to a function referring by string to ANOTHER local class (self-references are supported)",
    "results compared through vf/oracle.py:plain with class names normalised; errors by (exception class, item)",
]
SHARDS = {"quick": 4, "thorough": 16}
K = 3
WRAPS = ["plain", "opt", "list", "dict", "union", "tuple", "list_opt", "dict_list"]
SPELLS = ["direct", "str", "str", "whole"]
NAMES = ["A", "B", "C", "D"]
_n = [0]


def ann(wrap, ref):
    return {"plain": ref, "opt": f"Optional[{ref}]", "list": f"List[{ref}]", "dict": f"Dict[str, {ref}]", "union": f"Union[{ref}, int]",
            "tuple": f"Tuple[{ref}, int]", "list_opt": f"List[Optional[{ref}]]", "dict_list": f"Dict[str, List[{ref}]]"}[wrap]


DEFAULT = {"plain": "None", "opt": "None", "list": "utype.Field(default_factory=list)", "dict": "utype.Field(default_factory=dict)", "union": "0",
           "tuple": "utype.Field(required=False)", "list_opt": "utype.Field(default_factory=list)", "dict_list": "utype.Field(default_factory=dict)"}


def validate(p):
    try:
        names = [c["name"] for c in p["classes"]]
        if not names or len(set(names)) != len(names) or any(n not in NAMES for n in names):
            raise HarnessError("bad class names")
        for c in p["classes"]:
            if c.get("base", "Schema") not in ("Schema", "DataClass"):
                raise HarnessError("bad base")
            seen = set()
            for f in c["refs"]:
                if f["wrap"] not in WRAPS or f["spell"] not in SPELLS or (f["target"] not in names and f["target"] != "P"):
                    raise HarnessError("bad ref")
                if f["name"] in seen or not re.fullmatch(r"r\d", f["name"]):
                    raise HarnessError("bad ref name")
                seen.add(f["name"])
        order = p["order"]
        if sorted(order) != sorted(names + (["P"] if p.get("rule") else []) + (["f"] if p.get("func") else [])):
            raise HarnessError("bad order")
        if any(f["target"] == "P" for c in p["classes"] for f in c["refs"]) and not p.get("rule"):
            raise HarnessError("P not declared")
        if p.get("func"):
            fn = p["func"]
            for key in ("pos", "args", "kw", "ret"):
                if fn.get(key) is not None and fn[key] not in names:
                    raise HarnessError("bad func target")
    except (KeyError, TypeError):
        raise HarnessError("malformed program")


def render_test(p, sfx):
    """source of the program under test; names carry the unique suffix sfx"""
    names = {c["name"] for c in p["classes"]}
    future, local = p.get("future"), p.get("local")
    by = {c["name"]: c for c in p["classes"]}
    defined = set()
    lines = []
    ind = "    " if local else ""
    unresolved_at_creation = False

    def nm(x):
        return f"{x}{sfx}"

    def ref_text(owner, f):
        nonlocal unresolved_at_creation
        t = f["target"]
        spell = f["spell"]
        known = t in defined
        if not known:
            unresolved_at_creation = True
        if local and t != owner and t != "P":
            # documented limitation: only earlier local classes, by direct name
            return ann(f["wrap"], nm(t)) if known else None
        if spell == "direct" and (known or future):
            return ann(f["wrap"], nm(t))
        if spell == "whole" and not future:
            return repr(ann(f["wrap"], nm(t)))
        return ann(f["wrap"], repr(nm(t)))

    split = p.get("split")
    for idx, item in enumerate(p["order"]):
        if split is not None and idx == split and not local:
            lines.append("#--SPLIT--")
        if item == "P":
            lines += [f"{ind}class {nm('P')}(int, utype.Rule):", f"{ind}    gt = 0", ""]
            defined.add("P")
        elif item == "f":
            fn = p["func"]
            params = []
            if fn.get("pos"):
                params.append(f"a: {_q(nm(fn['pos']), fn['pos'] in defined, future)}")
            if fn.get("args"):
                params.append(f"*args: {_q(nm(fn['args']), fn['args'] in defined, future)}")
            if fn.get("kw"):
                params.append(f"**kw: {_q(nm(fn['kw']), fn['kw'] in defined, future)}")
            ret = f" -> {_q(nm(fn['ret']), fn['ret'] in defined, future)}" if fn.get("ret") and fn.get("pos") == fn.get("ret") else ""
            for key in ("pos", "args", "kw"):
                if fn.get(key) and fn[key] not in defined:
                    unresolved_at_creation = True
            body = "a" if fn.get("pos") and ret else "None"
            lines += [f"{ind}@utype.parse", f"{ind}def f{sfx}({', '.join(params)}){ret}:",
                      f"{ind}    SEEN['v'] = ({'a' if fn.get('pos') else 'None'}, {'args' if fn.get('args') else '()'}, {'kw' if fn.get('kw') else '{}'})",
                      f"{ind}    return {body}", ""]
        else:
            c = by[item]
            lines.append(f"{ind}class {nm(item)}(utype.{c.get('base', 'Schema')}):")
            lines.append(f"{ind}    v: int = 0")
            for f in c["refs"]:
                if f["target"] == "P" and local and "P" not in defined:
                    continue      # documented limitation: a local class cannot name a later local class
                if f["target"] == "P":
                    text = nm("P") if (("P" in defined and (f["spell"] == "direct" or local)) or (future and f["spell"] == "direct")) else repr(nm("P"))
                    if "P" not in defined:
                        unresolved_at_creation = True
                    text = ann(f["wrap"], text) if f["wrap"] in ("list", "opt", "dict") else text
                    d = {"list": "utype.Field(default_factory=list)", "opt": "None", "dict": "utype.Field(default_factory=dict)"}.get(f["wrap"])
                    if d is None:
                        d = "utype.Field(lt=10, default=1)" if f.get("constrain") else "1"
                    lines.append(f"{ind}    {f['name']}: {text} = {d}")
                    continue
                # the class under construction is not yet 'defined' for its own body
                text = ref_text(item, f)
                if text is None:
                    continue
                lines.append(f"{ind}    {f['name']}: {text} = {DEFAULT[f['wrap']]}")
            lines.append("")
            defined.add(item)
    head = ("from __future__ import annotations\n" if future else "") + "import utype\nfrom typing import *\nSEEN = {}\n"
    if local:
        exported = ", ".join([f"{nm(n)}={nm(n)}" for n in p["order"] if n != "f"] + ([f"f{sfx}=f{sfx}"] if p.get("func") else []))
        decoys = ""
        if p.get("decoy"):
            # unrelated module-level classes of the same names: a local class must still refer to itself
            decoys = "".join(f"class {nm(n)}(utype.Schema):\n    zz: int\n" for n in p["order"] if n not in ("f", "P"))
        src = head + decoys + "def make():\n" + "\n".join(lines) + f"\n    return dict({exported})\nLOCALS = make()\n"
    else:
        src = head + "\n".join(lines)
    return src, unresolved_at_creation


def _q(name, known, future):
    return name if (known or future) else repr(name)


def render_ref(p, sfx):
    """the same system with direct references only: level K first, then K-1, ... 0"""
    by = {c["name"]: c for c in p["classes"]}
    local = p.get("local")
    defined_order = [x for x in p["order"] if x not in ("P", "f")]
    lines = ["import utype", "from typing import *", "SEEN = {}"]
    if p.get("rule"):
        lines += [f"class P{sfx}R(int, utype.Rule):", "    gt = 0", ""]
    for level in range(K, -1, -1):
        for name in defined_order:
            c = by[name]
            lines.append(f"class {name}{sfx}R_{level}(utype.{c.get('base', 'Schema')}):")
            lines.append("    v: int = 0")
            pos = defined_order.index(name)
            for f in c["refs"]:
                t = f["target"]
                if t == "P" and local and p["order"].index("P") > p["order"].index(name):
                    continue
                if t == "P":
                    text = f"P{sfx}R"
                    text = ann(f["wrap"], text) if f["wrap"] in ("list", "opt", "dict") else text
                    d = {"list": "utype.Field(default_factory=list)", "opt": "None", "dict": "utype.Field(default_factory=dict)"}.get(f["wrap"])
                    if d is None:
                        d = "utype.Field(lt=10, default=1)" if f.get("constrain") else "1"
                    lines.append(f"    {f['name']}: {text} = {d}")
                    continue
                if local and t != name and defined_order.index(t) > pos:
                    continue    # dropped in the program under test as well (documented limitation)
                if level == K:
                    # inputs never reach below level K: only the default of the field matters there
                    lines.append(f"    {f['name']}: Any = {DEFAULT[f['wrap']]}")
                    continue
                lines.append(f"    {f['name']}: {ann(f['wrap'], f'{t}{sfx}R_{level + 1}')} = {DEFAULT[f['wrap']]}")
            lines.append("")
    if p.get("func"):
        fn = p["func"]
        params = []
        if fn.get("pos"):
            params.append(f"a: {fn['pos']}{sfx}R_0")
        if fn.get("args"):
            params.append(f"*args: {fn['args']}{sfx}R_0")
        if fn.get("kw"):
            params.append(f"**kw: {fn['kw']}{sfx}R_0")
        retn = fn.get("ret") and fn.get("pos") == fn.get("ret")
        ret = f" -> {fn['ret']}{sfx}R_0" if retn else ""
        lines += ["@utype.parse", f"def f{sfx}R({', '.join(params)}){ret}:",
                  f"    SEEN['v'] = ({'a' if fn.get('pos') else 'None'}, {'args' if fn.get('args') else '()'}, {'kw' if fn.get('kw') else '{}'})",
                  f"    return {'a' if fn.get('pos') and retn else 'None'}", ""]
    return "\n".join(lines)


def load(src, tag, between=None):
    _n[0] += 1
    name = f"vf_c17_{tag}{_n[0]}"
    mod = types.ModuleType(name)
    sys.modules[name] = mod
    parts = src.split("#--SPLIT--\n")
    exec(compile(parts[0], name, "exec"), mod.__dict__)
    fut = "from __future__ import annotations\n" if src.startswith("from __future__ import annotations") else ""
    for part in parts[1:]:
        if between:
            between(mod)
        exec(compile(fut + part, name, "exec"), mod.__dict__)   # the future flag is per compilation unit
    return mod


def unload(mod):
    from utype.parser import base
    for k in [k for k in base.__parsers__ if getattr(k, "__module__", None) == mod.__name__]:
        base.__parsers__.pop(k, None)
    sys.modules.pop(mod.__name__, None)


def norm(x, sfx):
    """plain() projection with class names normalised"""
    if isinstance(x, dict):
        if "__cls__" in x:
            x = dict(x)
            x["__cls__"] = re.sub(rf"{sfx}(R_\d+|R)?$", "", x["__cls__"])
        return {k: norm(v, sfx) for k, v in x.items()}
    if isinstance(x, (list, tuple)):
        return type(x)(norm(v, sfx) for v in x)
    return x


def outcome_of(fn, sfx):
    out = oracle.outcome(fn)
    if out[0] == "ok":
        return ("ok", norm(oracle.plain(out[1]), sfx))
    if out[0] == "perr":
        from .c06 import kinds_of
        return ("perr", sorted((k, i) for k, i in ((a, repr(b)) for a, b in kinds_of(out[1]))))
    if out[0] == "other":
        return ("other", type(out[1]).__name__, str(out[1])[:200])
    return out


def call_entity(mod, ent, sfx, ref, inp):
    data = codec.decode(inp)
    loc = getattr(mod, "LOCALS", None) if not ref else None
    get = (lambda n: loc[n]) if loc is not None else (lambda n: getattr(mod, n))
    if ent == "f":
        f = get(f"f{sfx}R" if ref else f"f{sfx}")
        args, kw = data

        def run():
            mod.SEEN.clear()
            r = f(*args, **kw)
            return {"ret": r, "seen": mod.SEEN.get("v")}
        return outcome_of(run, sfx)
    cls = get(f"{ent}{sfx}R_0" if ref else f"{ent}{sfx}")
    return outcome_of(lambda: cls.__from__(data), sfx)


def run_program(p, uses, sfx=None, extra_first=None):
    """-> (list of (entity, test outcome, reference outcome), unresolved flag)"""
    validate(p)
    if sfx is None:
        _n[0] += 1
        sfx = f"_{_n[0]}x"
    src, unresolved = render_test(p, sfx)
    ref_src = render_ref(p, sfx)
    def early(mod):
        # first uses made while later definitions do not exist yet: whatever they give (NameError included), they
        # must not spoil the uses made once everything is defined
        for item in p["order"][:p.get("split") or 0]:
            try:
                if item == "f":
                    if not p["func"].get("pos"):
                        getattr(mod, f"f{sfx}")()
                elif item != "P":
                    getattr(mod, f"{item}{sfx}").__from__({"v": 1})
            except Exception:
                pass
    try:
        tm = load(src, "t", between=early)
    except decl_errors() as e:
        return None, unresolved, f"{type(e).__name__}: {e}"
    try:
        rm = load(ref_src, "r")
    except Exception as e:
        unload(tm)
        raise HarnessError(f"reference program does not load: {e}\n{ref_src}")
    try:
        res = []
        for ent, inp in uses:
            t = call_entity(tm, ent, sfx, False, inp)
            r = call_entity(rm, ent, sfx, True, inp)
            res.append((ent, t, r))
        return res, unresolved, None
    finally:
        unload(tm)
        unload(rm)


def judge_case(case):
    try:
        p, uses = case["program"], case["uses"]
    except (KeyError, TypeError):
        raise HarnessError("malformed case")
    names = [c["name"] for c in p["classes"]]
    for ent, inp in uses:
        if ent not in names and not (ent == "f" and p.get("func")):
            raise HarnessError("bad use")
    res, unresolved, err = run_program(p, uses)
    if res is None:
        return {"status": "declaration-refused", "fails": [(f"declaration-refused/{err.split(':')[0]}", {"error": err[:300], "features": feats(p)})], "unresolved": unresolved}
    fails = []
    for i, (ent, t, r) in enumerate(res):
        if t[0] == "other" or r[0] == "other":
            if t[0] == "other" and r[0] != "other":
                fails.append((f"internal-error-with-forward-references/{t[1]}", {"entity": ent, "use": i, "error": t[2], "reference": r[0], "features": feats(p)}))
            continue
        if t != r:
            kind = f"{r[0]}->{t[0]}"
            fails.append((f"differs-from-direct-references/{kind}{'/first-call' if i == 0 else ''}", {"entity": ent, "use": i, "with_forward_refs": oracle.short(t, 300),
                                                                                                     "direct": oracle.short(r, 300), "features": feats(p)}))
    return {"status": "ok", "fails": fails[:2], "unresolved": unresolved, "n_err": sum(1 for _, t, _ in res if t[0] == "perr")}


def feats(p):
    f = set()
    if p.get("future"):
        f.add("future")
    if p.get("local"):
        f.add("local")
    for c in p["classes"]:
        tg = [r["target"] for r in c["refs"]]
        if len(tg) != len(set(tg)):
            f.add("same-target-twice")
        for r in c["refs"]:
            f.add(r["wrap"])
            if r["target"] == c["name"]:
                f.add("self")
    if p.get("func"):
        f.add("func")
    if p.get("decoy"):
        f.add("decoy")
    if p.get("split") is not None:
        f.add("used-before-fully-defined")
    return sorted(f)


# -- same names in two modules ---------------------------------------------------------------------------------

def judge_twins(case):
    """two modules declare classes with the same names but different fields; each must use its own"""
    wrap, first = case["wrap"], case.get("first", 0)
    if wrap not in WRAPS:
        raise HarnessError("bad wrap")
    _n[0] += 1
    cname = f"Twin{_n[0]}"
    styles = case.get("styles") or ["plain", "plain"]
    if len(styles) != 2 or any(x not in ("plain", "future", "whole") for x in styles):
        raise HarnessError("bad styles")
    srcs = []
    for (fld, typ), style in zip((("value", "int"), ("name", "str")), styles):
        # plain: List['Twin']   future: the module has `from __future__ import annotations`   whole: "List['Twin']" (the whole annotation a string)
        a = ann(wrap, repr(cname))
        if style == "whole":
            a = repr(a)
        srcs.append(("from __future__ import annotations\n" if style == "future" else "") +
                    f"import utype\nfrom typing import *\nclass {cname}(utype.Schema):\n    {fld}: {typ}\n    child: {a} = {DEFAULT[wrap]}\n")
    mods = [None, None]
    try:
        def child(v):
            return {"plain": v, "opt": v, "list": [v], "dict": {"k": v}, "union": v, "tuple": (v, 1), "list_opt": [v, None], "dict_list": {"k": [v]}}[wrap]
        inputs = [{"value": 1, "child": child({"value": 2})}, {"name": "a", "child": child({"name": "b"})}]
        order = [0, 1] if not first else [1, 0]
        fails = []
        if not case.get("early_use"):
            for i in (0, 1):
                mods[i] = load(srcs[i], "tw" + "ab"[i])
        for i in order + order[:1]:
            if mods[i] is None:
                mods[i] = load(srcs[i], "tw" + "ab"[i])      # early_use: the other module was declared AND used before this one exists
            cls = getattr(mods[i], cname)
            out = oracle.outcome(cls.__from__, inputs[i])
            want_child = {"plain": 1, "opt": 1}.get(wrap)
            if out[0] != "ok":
                fails.append((f"same-class-name-in-two-modules/{'second' if i != order[0] else 'first'}-module-fails",
                              {"wrap": wrap, "error": str(out[1])[:200], "module": i, "styles": styles}))
            elif want_child and type(out[1].child) is not cls:
                fails.append(("same-class-name-in-two-modules/child-parsed-as-the-other-modules-class", {"wrap": wrap, "module": i, "styles": styles}))
        return {"status": "ok", "fails": fails[:2], "unresolved": True}
    finally:
        for m in mods:
            if m is not None:
                unload(m)


def judge_inherit(case):
    """a subclass inherits fields whose references are still pending; whichever of the two classes is used first, it behaves as
    the same declarations written with direct references (the referenced class defined first)"""
    wrap, first, base, style = case["wrap"], case.get("first", "sub"), case.get("base", "Schema"), case.get("style", "plain")
    if wrap not in WRAPS or first not in ("sub", "base") or base not in ("Schema", "DataClass") or style not in ("plain", "future"):
        raise HarnessError("bad inherit case")
    _n[0] += 1
    L, B, S = f"Later{_n[0]}", f"Base{_n[0]}", f"Sub{_n[0]}"
    head = ("from __future__ import annotations\n" if style == "future" else "") + "import utype\nfrom typing import *\n"
    later = f"class {L}(utype.{base}):\n    w: int\n"

    levels = case.get("levels", 2)
    if levels not in (2, 3):
        raise HarnessError("bad levels")

    def decls(ref):
        mid = f"class Mid{_n[0]}({B}):\n    y: int = 0\n" if levels == 3 else ""     # a class in between with nothing pending of its own
        return (f"class {B}(utype.{base}):\n    v: int = 0\n    nxt: {ann(wrap, ref)} = {DEFAULT[wrap]}\n" + mid +
                f"class {S}({'Mid%d' % _n[0] if levels == 3 else B}):\n    x: int = 0\n")
    fwd = load(head + decls(repr(L) if style == "plain" else L) + later, "inf")
    ref = load(head + later + decls(L), "inr")
    try:
        def child(v):
            return {"plain": v, "opt": v, "list": [v], "dict": {"k": v}, "union": v, "tuple": (v, 1), "list_opt": [v, None], "dict_list": {"k": [v]}}[wrap]
        fails = []
        for who in ([S, B] if first == "sub" else [B, S]) + [S]:
            data = {"v": "1", "nxt": child({"w": "2"})}
            a = oracle.outcome(dspec.from_data(getattr(fwd, who)), dict(data))
            b = oracle.outcome(dspec.from_data(getattr(ref, who)), dict(data))
            if a[0] in ("other", "hang") or b[0] != "ok":
                return {"status": "other", "fails": fails}
            if a[0] != "ok":
                fails.append((f"inherited-pending-reference/{'subclass' if who == S else 'base'}-used-{'first' if who == ([S, B] if first == 'sub' else [B, S])[0] and not fails else 'later'}-fails",
                              {"wrap": wrap, "error": str(a[1])[:200], "class": who, "first": first}))
                break
            pa, pb = oracle.plain(a[1]), oracle.plain(b[1])
            if not oracle.equal(_strip_names(pa), _strip_names(pb)):
                fails.append(("inherited-pending-reference/result-differs-from-direct-references", {"wrap": wrap, "forward": oracle.short(pa), "direct": oracle.short(pb)}))
                break
        return {"status": "ok", "fails": fails, "unresolved": True}
    finally:
        unload(fwd)
        unload(ref)


def judge_local_later(case):
    """a class / function declared inside a function refers to a MODULE-LEVEL class defined later (legal: the name is global when
    the declaration is first used); it behaves as the same declaration with the class defined first"""
    wrap, what = case["wrap"], case.get("what", "class")
    if wrap not in WRAPS or what not in ("class", "param", "return", "varargs", "return_only", "yields_whole"):
        raise HarnessError("bad local-later case")
    _n[0] += 1
    L = f"Later{_n[0]}"
    later = f"class {L}(utype.Schema):\n    w: int\n"

    def body(ref):
        a = ann(wrap, ref)
        if what == "class":
            return f"def make():\n    class Loc(utype.Schema):\n        nxt: {a} = {DEFAULT[wrap]}\n    return Loc.__from__\n"
        if what == "param":
            return f"def make():\n    @utype.parse\n    def fn(nxt: {a} = None):\n        return {{'nxt': nxt}}\n    return lambda d: fn(**d)\n"
        if what == "yields_whole":
            # a generator whose WHOLE result annotation is one string naming the later class: what it yields is parsed all the same
            it = f"Iterator[{ann(wrap, L)}]"
            return (f"def make():\n    @utype.parse\n    def fn(nxt) -> {repr(it) if ref != L else it}:\n        yield nxt\n"
                    f"    return lambda d: {{'nxt': list(fn(**d))[0]}}\n")
        if what == "return_only":
            # only the result is parsed (ignore_params): the reference in the return annotation is the function's only pending one
            return f"def make():\n    @utype.parse(ignore_params=True)\n    def fn(nxt) -> {a}:\n        return nxt\n    return lambda d: {{'nxt': fn(**d)}}\n"
        if what == "varargs":
            return f"def make():\n    @utype.parse\n    def fn(*r: {a}):\n        return {{'nxt': list(r)}}\n    return lambda d: fn(d['nxt'], d['nxt'])\n"
        return f"def make():\n    @utype.parse\n    def fn(nxt) -> {a}:\n        return nxt\n    return lambda d: {{'nxt': fn(**d)}}\n"
    head = "import utype\nfrom typing import *\n"
    fwd = load(head + body(repr(L)) + "ENTRY = make()\n" + later, "llf")
    ref = load(head + later + body(L) + "ENTRY = make()\n", "llr")
    try:
        def child(v):
            return {"plain": v, "opt": v, "list": [v], "dict": {"k": v}, "union": v, "tuple": (v, 1), "list_opt": [v, None], "dict_list": {"k": [v]}}[wrap]
        fails = []
        for attempt in ("first", "second"):
            a = oracle.outcome(fwd.ENTRY, {"nxt": child({"w": "2"})})
            b = oracle.outcome(ref.ENTRY, {"nxt": child({"w": "2"})})
            if b[0] != "ok" or a[0] in ("other", "hang"):
                return {"status": "other", "fails": fails}
            if a[0] != "ok":
                fails.append((f"local-declaration-with-a-later-module-level-class/{what}-fails/{attempt}-call", {"wrap": wrap, "error": str(a[1])[:200]}))
                break
            if not oracle.equal(_strip_names(oracle.plain(a[1])), _strip_names(oracle.plain(b[1]))):
                fails.append((f"local-declaration-with-a-later-module-level-class/{what}-result-differs", {"wrap": wrap, "forward": oracle.short(oracle.plain(a[1])), "direct": oracle.short(oracle.plain(b[1]))}))
                break
        return {"status": "ok", "fails": fails, "unresolved": True}
    finally:
        unload(fwd)
        unload(ref)


TWO_REF_FORMS = ["Union[{0}, {1}]", "Union[{1}, {0}]", "Optional[Union[{0}, {1}]]", "List[Union[{0}, {1}]]", "Union[{0}, {1}, int]", "Dict[str, Union[{1}, {0}]]"]


def judge_two_refs(case):
    """a combinator over TWO classes that are defined later: mappings and INSTANCES of either class come out as with the direct
    spelling (classes defined first) - an instance of a member is that member's, whichever position it has"""
    form, style = case.get("form"), case.get("style", "str")
    if form not in TWO_REF_FORMS or style not in ("str", "future", "whole"):
        raise HarnessError("bad two-refs case")
    _n[0] += 1
    P, Q, H = f"Pa{_n[0]}", f"Qa{_n[0]}", f"Ha{_n[0]}"
    classes = f"class {P}(utype.Schema):\n    x: int\nclass {Q}(utype.Schema):\n    x: int\n    y: int = 0\n"
    head = "import utype\nfrom typing import *\n"

    def holder(a, b, whole=False):
        t = form.format(a, b)
        return f"class {H}(utype.Schema):\n    u: {repr(t) if whole else t}\n"
    if style == "str":
        fsrc = head + holder(repr(P), repr(Q)) + classes
    elif style == "whole":
        fsrc = head + holder(P, Q, whole=True) + classes
    else:
        fsrc = "from __future__ import annotations\n" + head + holder(P, Q) + classes
    fwd, ref = load(fsrc, "trf"), load(head + classes + holder(P, Q), "trr")
    try:
        def wrapv(v):
            return [v] if form.startswith("List") else {"k": v} if form.startswith("Dict") else v
        fails = []
        for tag, mk in (("mapping-with-the-second-class's-field", lambda m: {"x": 1, "y": 2}), ("mapping", lambda m: {"x": "1"}),
                        ("instance-of-the-second-class", lambda m: getattr(m, Q)(x=1, y=2)), ("instance-of-the-first-class", lambda m: getattr(m, P)(x=3))):
            a = oracle.outcome(getattr(fwd, H).__from__, {"u": wrapv(mk(fwd))})
            b = oracle.outcome(getattr(ref, H).__from__, {"u": wrapv(mk(ref))})
            if b[0] != "ok" or a[0] in ("other", "hang"):
                continue
            if a[0] != "ok":
                fails.append((f"two-later-classes-in-a-combinator/fails/{tag}", {"form": form, "style": style, "error": str(a[1])[:200]}))
                break

            def shape(r):
                u = r.u
                u = u[0] if isinstance(u, list) else u["k"] if type(u) is dict else u
                return (type(u).__name__[:2], oracle.plain(u))
            if shape(a[1]) != shape(b[1]):
                fails.append((f"two-later-classes-in-a-combinator/result-differs/{tag}", {"form": form, "style": style, "forward": repr(shape(a[1])), "direct": repr(shape(b[1]))}))
                break
        return {"status": "ok", "fails": fails, "unresolved": True}
    finally:
        unload(fwd)
        unload(ref)


def judge_shared_name(case):
    """one reference string used by several annotations of a declaration, one of them a bare field with its own Field
    constraints: the constraints belong to that field only, and every reference behaves as the direct spelling does"""
    order, kind = case.get("order", 0), case.get("kind", "class")
    if order not in (0, 1, 2) or kind not in ("class", "func"):
        raise HarnessError("bad shared-name case")
    _n[0] += 1
    P = f"P{_n[0]}"
    prule = f"class {P}(int, utype.Rule):\n    gt = 0\n"
    fields = [("a", "{R}", "utype.Field(le=5, default=1)"), ("b", "List[{R}]", "utype.Field(default_factory=list)"), ("c", "Optional[{R}]", "None")]
    fields = fields[order:] + fields[:order]

    def body(ref):
        if kind == "class":
            return "class H(utype.Schema):\n" + "".join(f"    {n}: {a.format(R=ref)} = {d}\n" for n, a, d in fields) + "ENTRY = H.__from__\n"
        params = ", ".join(f"{n}: {a.format(R=ref)} = " + (d if "default_factory" not in d else "utype.Param(default_factory=list)").replace("utype.Field(le=5, default=1)", "utype.Param(1, le=5)") for n, a, d in fields)
        return f"@utype.parse\ndef fn({params}):\n    return {{'a': a, 'b': b, 'c': c}}\nENTRY = lambda d: fn(**d)\n"
    head = "import utype\nfrom typing import *\n"
    fwd = load(head + body(repr(P)) + prule, "snf")
    ref = load(head + prule + body(P), "snr")
    try:
        fails = []
        for data in ({"a": 7}, {"a": "3", "b": [7, "8"], "c": 9}, {"b": [0]}, {"c": -1}, {"a": 0}, {"a": 5, "b": [6]}):
            a = oracle.outcome(fwd.ENTRY, dict(data))
            b = oracle.outcome(ref.ENTRY, dict(data))
            if a[0] in ("other", "hang") or b[0] in ("other", "hang"):
                return {"status": "other", "fails": fails}
            same = a[0] == b[0] and (a[0] != "ok" or oracle.equal(_strip_names(oracle.plain(a[1])), _strip_names(oracle.plain(b[1]))))
            if not same:
                fails.append((f"shared-reference-name/differs-from-direct-references/{kind}/{b[0]}->{a[0]}", {"input": data, "forward": oracle.short(a[1]), "direct": oracle.short(b[1]), "order": order}))
                break
        return {"status": "ok", "fails": fails, "unresolved": True}
    finally:
        unload(fwd)
        unload(ref)


def _strip_names(x):
    if isinstance(x, dict):
        return {k: _strip_names(v) for k, v in x.items() if k != "__cls__"}
    if isinstance(x, (list, tuple)):
        return [_strip_names(v) for v in x]
    return x


def run_case(case):
    if case.get("part") == "shared_name":
        return judge_shared_name(case)
    if case.get("part") == "local_later":
        return judge_local_later(case)
    if case.get("part") == "two_refs":
        return judge_two_refs(case)
    if case.get("part") == "inherit":
        return judge_inherit(case)
    if case.get("part") == "twins":
        return judge_twins(case)
    return judge_case(case)


def judge(case):
    try:
        return run_case(case)["fails"]
    except (KeyError, IndexError, TypeError, AttributeError) as e:
        raise HarnessError(f"malformed case: {e}")


# -- strategies ------------------------------------------------------------------------------------------------

def gen_input(draw, p, name, depth):
    by = {c["name"]: c for c in p["classes"]}
    d = [["v", draw(st.sampled_from([1, 1, "2", "x"]))]] if draw(st.booleans()) else []
    if depth >= K:
        return {"t": "dict", "v": d}
    order = [x for x in p["order"] if x not in ("P", "f")]
    for f in by[name]["refs"]:
        if not draw(st.sampled_from([True, True, False])):
            continue
        t = f["target"]
        if t == "P" and p.get("local") and p["order"].index("P") > p["order"].index(name):
            continue
        if t == "P":
            v = draw(st.sampled_from([1, "3", 0, 11, "x"]))
            val = {"list": {"t": "list", "v": [v]}, "opt": v, "dict": {"t": "dict", "v": [["k", v]]}}.get(f["wrap"], v)
            d.append([f["name"], val])
            continue
        if p.get("local") and t != name and order.index(t) > order.index(name):
            continue
        sub = gen_input(draw, p, t, depth + 1)
        w = f["wrap"]
        if w in ("plain", "opt", "union"):
            val = sub if w != "union" or draw(st.booleans()) else draw(st.sampled_from([5, "6"]))
        elif w == "list":
            val = {"t": "list", "v": [sub] + ([gen_input(draw, p, t, depth + 1)] if draw(st.booleans()) else [])}
        elif w == "dict":
            val = {"t": "dict", "v": [["k", sub]]}
        elif w == "tuple":
            val = {"t": "list", "v": [sub, 1]}
        elif w == "list_opt":
            val = {"t": "list", "v": [sub, None]}
        else:
            val = {"t": "dict", "v": [["k", {"t": "list", "v": [sub]}]]}
        d.append([f["name"], val])
    return {"t": "dict", "v": d}


@st.composite
def cases(draw):
    n = draw(st.integers(1, 3))
    names = NAMES[:n]
    rule = draw(st.booleans())
    local = draw(st.sampled_from([False, False, False, True]))
    future = draw(st.sampled_from([False, False, True])) and not local
    classes = []
    for nm in names:
        k = draw(st.integers(1, 3))
        refs = []
        for i in range(k):
            t = draw(st.sampled_from(names + names + (["P"] if rule else [])))
            refs.append({"name": f"r{i}", "target": t, "wrap": draw(st.sampled_from(WRAPS)), "spell": draw(st.sampled_from(SPELLS)),
                         "constrain": draw(st.booleans())})
        classes.append({"name": nm, "base": draw(st.sampled_from(["Schema", "Schema", "DataClass"])), "refs": refs})
    func = None
    if draw(st.booleans()) and not local:
        func = {"pos": draw(st.sampled_from(names + [None])), "args": draw(st.sampled_from(names + [None])), "kw": draw(st.sampled_from(names + [None]))}
        func["ret"] = func["pos"] if draw(st.booleans()) else None
        if not any(func[k] for k in ("pos", "args", "kw")):
            func = None
    order = draw(st.permutations(names + (["P"] if rule else []) + (["f"] if func else [])))
    p = {"classes": classes, "order": list(order), "future": future, "local": local, "rule": rule, "func": func}
    if local and draw(st.booleans()):
        p["decoy"] = True
    if not local and draw(st.booleans()):
        p["split"] = draw(st.integers(1, len(order)))
    ents = names + (["f"] if func else [])
    uses = []
    for ent in draw(st.permutations(ents)):
        for _ in range(draw(st.integers(1, 2))):
            if ent == "f":
                args = []
                if func.get("pos"):
                    args.append(gen_input(draw, p, func["pos"], 0))
                if func.get("args"):
                    args += [gen_input(draw, p, func["args"], 0) for _ in range(draw(st.integers(0, 2)))]
                kw = [["k1", gen_input(draw, p, func["kw"], 0)]] if func.get("kw") and draw(st.booleans()) else []
                uses.append(["f", {"t": "list", "v": [{"t": "list", "v": args}, {"t": "dict", "v": kw}]}])
            else:
                uses.append([ent, gen_input(draw, p, ent, 0)])
    return {"program": p, "uses": uses}


TWINS = st.fixed_dictionaries({"part": st.just("twins"), "wrap": st.sampled_from(WRAPS), "first": st.integers(0, 1),
                               "styles": st.lists(st.sampled_from(["plain", "plain", "future", "whole"]), min_size=2, max_size=2), "early_use": st.booleans()})


def campaign(ctx):
    def body(case):
        r = run_case(case)
        ctx.label(f"status_{r['status']}")
        if case.get("part") in ("twins", "inherit", "local_later", "shared_name", "two_refs"):
            ctx.label("part_" + case["part"])
            ctx.nt(case)
        else:
            for f in feats(case["program"]):
                ctx.label(f"feature_{f}")
            if r.get("unresolved"):
                ctx.label("has_reference_unresolved_at_class_creation")
                ctx.nt(case)
                ctx.sample("program", case)
        ctx.fail_all(r["fails"], case)
    ctx.run_given(st.one_of(cases(), cases(), cases(), cases(), cases(), cases(), cases(), cases(), cases(), TWINS), body, max_examples=ctx.n(400, 6000))
    # same class name in two modules: every wrapper x annotation style of each module x declaration/use order, enumerated completely
    idx = 0
    for wrap in WRAPS:
        for s0 in ("plain", "future", "whole"):
            for s1 in ("plain", "future", "whole"):
                for first in (0, 1):
                    for early in (False, True):
                        idx += 1
                        if idx % ctx.nshards != ctx.shard:
                            continue
                        ctx.ev()
                        body({"part": "twins", "wrap": wrap, "first": first, "styles": [s0, s1], "early_use": early})
    ctx.extra["twins_grid_exhaustive"] = True
    # a subclass of a class with pending references, used before / after its base: enumerated completely
    for wrap in WRAPS:
        for first in ("sub", "base"):
            for base in ("Schema", "DataClass"):
                for style in ("plain", "future"):
                    idx += 1
                    if idx % ctx.nshards != ctx.shard:
                        continue
                    ctx.ev()
                    body({"part": "inherit", "wrap": wrap, "first": first, "base": base, "style": style})
                    if style == "plain":
                        ctx.ev()
                        body({"part": "inherit", "wrap": wrap, "first": first, "base": base, "style": style, "levels": 3})
    # declarations local to a function that name a module-level class defined later: enumerated completely
    for wrap in WRAPS:
        for what in ("class", "param", "return", "varargs", "return_only", "yields_whole"):
            idx += 1
            if idx % ctx.nshards != ctx.shard:
                continue
            ctx.ev()
            body({"part": "local_later", "wrap": wrap, "what": what})
    # a combinator over two classes defined later, given mappings and instances of either: enumerated completely
    for form in TWO_REF_FORMS:
        for style in ("str", "future", "whole"):
            idx += 1
            if idx % ctx.nshards != ctx.shard:
                continue
            ctx.ev()
            body({"part": "two_refs", "form": form, "style": style})
    # one reference name in several annotations, one of them a constrained bare field: enumerated completely
    for order in (0, 1, 2):
        for kind in ("class", "func"):
            idx += 1
            if idx % ctx.nshards != ctx.shard:
                continue
            ctx.ev()
            body({"part": "shared_name", "order": order, "kind": kind})
