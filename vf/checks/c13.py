"""C13 - the generated JSON Schema is valid and describes what the parser does.

Generated: types and data classes in the JSON-expressible, negation-free fragment (origins with a JSON image,
constraints with a keyword, containers, unions / xor / and, Literal, Enum, nested data classes, aliases, required,
conforming defaults, no_input / no_output, per-field mode, addition, case-insensitivity); mode in {None, r, w, a}
supplied as class Options(mode=) or as the generator's mode= argument; accepted inputs.
Oracle: (1) Draft202012Validator.check_schema on the document (after a JSON round trip through utype.JSONEncoder);
(2) every value the parser produces, JSON-encoded, validates against the OUTPUT schema (independent validator:
the `jsonschema` package); (3) structure of the INPUT schema established behaviourally per mode: a field is listed
in `properties` <=> feeding it makes the value land in the instance; `required` == the fields whose removal alone
raises an absence error; `additionalProperties` false <=> unknown key rejected, absent <=> dropped, true <=> kept
raw, a schema <=> converted.
"""
import json

from hypothesis import strategies as st

from .. import codec, dspec, entries, gen, oracle, tspec
from ..core import HarnessError
from .c01 import decl_errors

ID = "C13"
RULE = ("(type | data class, mode, how the mode is supplied, inputs); non-trivial = a data class with a mode-restricted, aliased, no_input/no_output field or a "
        "non-default addition, or a constrained / container / logical type, with at least one accepted input; distinct = hash of the case")
ASSUMPTIONS = [
    "independent validator: jsonschema.Draft202012Validator (format keywords are annotations only; `pattern` is a search, so the schema may be weaker than utype's full match)",
    "non-finite floats are not used (JSON has no representation, see C14)",
    "structure probes use one known-valid JSON value per field type, different from the declared default",
    "(3) is asserted on top-level fields of the generated data class; nested classes are covered by (1) and (2)",
    "callable no_input/no_output (decided per value) and the 'preserve' policies are outside the fragment; declared defaults conform to the field type",
]
SHARDS = {"quick": 4, "thorough": 16}

# field type -> (a valid JSON value that is not the declared default, its parsed form for comparison)
VALID = {
    "int": 41, "str": "vv", "float": 2.25, "bool": True, "list": [4, 5], "dict": {"kk": 3}, "opt": 9, "union": 8, "datetime": "2021-02-03T04:05:06",
    "con:int": 3, "con:str": "q", "date": "2021-02-03", "enum": "green", "data": {"p": 1}, "list:data": [{"p": 2}],
}
INNER = {"name": "In13", "base": "schema", "fields": [{"name": "p", "type": {"k": "leaf", "o": "int"}},
                                                      {"name": "q", "type": {"k": "con", "o": "str", "c": {"max_length": 2}}, "f": {"plain_default": {"v": ""}}}]}
# a second, different nested class with the SAME name (two definitions competing for one $defs name)
INNER2 = {"name": "In13", "base": "schema", "fields": [{"name": "p", "type": {"k": "leaf", "o": "str"}},
                                                       {"name": "z", "type": {"k": "leaf", "o": "bool"}, "f": {"plain_default": {"v": False}}}]}
EXTRA_FIELD_TYPES = [{"k": "leaf", "o": "date"}, {"k": "enum", "e": "Color"}, {"k": "data", "d": INNER}, {"k": "data", "d": INNER2},
                     {"k": "list", "a": {"k": "data", "d": INNER}}]


def tkey(t):
    if t["k"] == "leaf":
        return t["o"]
    if t["k"] == "con":
        return "con:" + t["o"]
    if t["k"] == "list" and t["a"]["k"] == "data":
        return "list:data"
    return t["k"]


def validator():
    import jsonschema
    return jsonschema.Draft202012Validator


def to_json(x):
    import utype
    return json.loads(json.dumps(x, cls=utype.JSONEncoder))


def dangling_refs(doc):
    """local references (#/$defs/NAME) of a document that its own $defs does not define"""
    defs = doc.get("$defs") or {}
    out = []

    def walk(n):
        if isinstance(n, dict):
            r = n.get("$ref")
            if isinstance(r, str) and r.startswith("#/$defs/") and r[len("#/$defs/"):] not in defs and r not in out:
                out.append(r)
            for v in n.values():
                walk(v)
        elif isinstance(n, list):
            for v in n:
                walk(v)
    walk(doc)
    return out


def schema_of(T, mode=None, output=False, shared_defs=False):
    from utype.specs.json_schema.generator import JsonSchemaGenerator
    if shared_defs:
        g = JsonSchemaGenerator(T, defs={}, mode=mode, output=output)
        doc = dict(g())
        doc["$defs"] = g.get_defs()
        return doc
    return JsonSchemaGenerator(T, mode=mode, output=output)()


# -- plain types -------------------------------------------------------------------------------------------

JSON_ORIGINS = ["int", "float", "str", "bool", "none", "decimal", "bytes", "date", "datetime", "time", "timedelta", "uuid", "list", "dict"]


def json_types(max_leaves=3):
    leaf = st.sampled_from(JSON_ORIGINS).map(lambda o: {"k": "leaf", "o": o})
    hleaf = st.sampled_from(["int", "str", "float", "bool", "date", "uuid"]).map(lambda o: {"k": "leaf", "o": o})
    con = gen.constrained(lax_ok=False, origins=["int", "int", "float", "decimal", "str", "str", "list", "tuple", "dict"]).filter(
        lambda s: not any(k in s.get("c", {}) for k in ("length",)))
    # KF-C13-01 (heterogeneous Enum/Literal gets the JSON type of one member) is excluded by construction: literals are homogeneous
    lit = st.one_of(st.lists(st.integers(-2, 2), min_size=1, max_size=3, unique=True), st.lists(st.sampled_from(["a", "b", ""]), min_size=1, max_size=3, unique=True),
                    st.just([None]), st.just([True]), st.just([False, True])).map(lambda v: {"k": "lit", "v": v})
    enum_h = st.sampled_from(["Color", "Num"]).map(lambda e: {"k": "enum", "e": e})
    base = st.one_of(leaf, leaf, con, con, enum_h, lit)

    def extend(ch):
        return st.one_of(
            ch.map(lambda a: {"k": "list", "a": a}), hleaf.map(lambda a: {"k": "set", "a": a}), ch.map(lambda a: {"k": "tuplev", "a": a}),
            st.lists(ch, min_size=1, max_size=3).map(lambda a: {"k": "tuple", "a": a}),
            st.tuples(st.sampled_from(["str", "int", "date"]).map(lambda o: {"k": "leaf", "o": o}), ch).map(lambda t: {"k": "dict", "key": t[0], "val": t[1]}),
            ch.map(lambda a: {"k": "opt", "a": a}),
            st.lists(ch, min_size=2, max_size=3).map(lambda a: {"k": "union", "a": a, "m": "annotate"}),
            st.lists(ch, min_size=2, max_size=2).map(lambda a: {"k": "xor", "a": a, "m": "annotate"}),
        )
    return st.recursive(base, extend, max_leaves=max_leaves)


def finite(x):
    import decimal
    import math
    if isinstance(x, float):
        return math.isfinite(x)
    if isinstance(x, decimal.Decimal):
        return x.is_finite()
    if isinstance(x, complex):
        return False
    if isinstance(x, dict):
        return all(finite(k) and finite(v) for k, v in x.items())
    if isinstance(x, (list, tuple, set, frozenset)):
        return all(finite(v) for v in x)
    if oracle.is_dataclass_inst(x):
        return all(finite(v) for v in (dict(x).values() if isinstance(x, dict) else vars(x).values()))
    return True


def unsafe_decimal(x):
    import decimal
    if isinstance(x, decimal.Decimal):
        if not x.is_finite():
            return False
        if abs(x) > 9007199254740991:
            return True
        try:
            f = float(x)
        except (OverflowError, ValueError):
            return True
        return (f == 0) != (x == 0) or f in (float("inf"), float("-inf"))    # beyond the range of a double: written as text as well
    if isinstance(x, dict):
        return any(unsafe_decimal(k) or unsafe_decimal(v) for k, v in x.items())
    if isinstance(x, (list, tuple, set, frozenset)):
        return any(unsafe_decimal(v) for v in x)
    if oracle.is_dataclass_inst(x):
        return any(unsafe_decimal(v) for v in (dict(x).values() if isinstance(x, dict) else vars(x).values()))
    return False


def heterogeneous(spec):
    if spec["k"] == "enum" and spec["e"] == "Plain":
        return True
    if spec["k"] == "lit" and len({type(v).__name__ for v in spec["v"]}) > 1:
        return True
    for key in ("a", "key", "val"):
        sub = spec.get(key)
        if isinstance(sub, dict) and heterogeneous(sub):
            return True
        if isinstance(sub, list) and any(isinstance(x, dict) and heterogeneous(x) for x in sub):
            return True
    return False


def culprit(errs):
    """root-cause key of a validation failure: the innermost failing keyword (oneOf with several valid branches is its own class)"""
    def walk(e):
        if e.validator == "oneOf" and "valid under each of" in e.message:
            return "oneOf-several-branches-valid"
        for sub in (e.context or []):
            r = walk(sub)
            if r and r.startswith("oneOf-several"):
                return r
        return None
    for e in errs:
        r = walk(e)
        if r:
            return r
    e = errs[0]
    if e.validator in ("anyOf", "oneOf") and e.context:
        inner = sorted({c.validator for c in e.context})
        return f"{e.validator}:{'+'.join(inner)}"
    return f"{e.validator}"


def judge_type(case):
    import utype
    spec = case["type"]
    tspec.validate(spec)
    try:
        T = tspec.build(spec)
        schema = schema_of(T)
    except HarnessError:
        raise
    except decl_errors():
        return {"status": "discarded", "fails": []}
    fails = []
    V = validator()
    try:
        js = to_json(schema)
        V.check_schema(js)
    except Exception as e:
        return {"status": "ok", "accepted": 0, "fails": [(f"invalid-schema/{type(e).__name__}/{_k(spec)}", {"schema": oracle.short(schema, 400), "error": str(e)[:300]})]}
    acc = 0
    for vs in case.get("inputs", []):
        from .c09 import _one_shot_spec
        if _one_shot_spec(vs):
            continue
        out = oracle.reject_raw(oracle.outcome(utype.type_transform, codec.decode(vs), T))
        if out[0] != "ok" or not finite(out[1]):
            continue
        acc += 1
        try:
            doc = to_json(out[1])
        except Exception:
            continue   # encoding is C14's subject
        errs = sorted(V(js).iter_errors(doc), key=lambda e: list(e.absolute_path))
        if errs:
            why = culprit(errs)
            if unsafe_decimal(out[1]):
                why = "decimal-beyond-js-safe-range-encoded-as-string"
            elif heterogeneous(spec):
                why = "heterogeneous-enum-gets-one-json-type"
            fails.append((f"output-violates-schema/{why}/{_k(spec)}", {"value": oracle.short(out[1]), "json": oracle.short(doc), "schema": oracle.short(js, 400),
                                                                                   "error": errs[0].message[:200]}))
            break
    return {"status": "ok", "accepted": acc, "fails": fails}


def _k(spec):
    k = spec["k"]
    return tkey(spec) if k in ("leaf", "con") else k


# -- data classes --------------------------------------------------------------------------------------------

def runtime_options(case):
    o = dict(case["decl"].get("options") or {})
    if case.get("mode") and case.get("mode_via") == "generator":
        o["mode"] = case["mode"]
        return entries.make_options(o)
    return None


def parse(cls, data, ropts):
    return oracle.outcome(cls.__from__, data, ropts) if ropts is not None else oracle.outcome(cls.__from__, data)


def sanitize(d):
    """the fragment of the property: no 'preserve' policy (documented as unsafe), declared defaults conform to the field type"""
    d = json.loads(json.dumps(d))
    for fd in d["fields"]:
        f = fd.get("f") or {}
        if f.get("on_error") == "preserve":
            f.pop("on_error")
        for k in ("no_input", "no_output"):
            if isinstance(f.get(k), str) and f[k].startswith("fn:"):
                f.pop(k)      # decided per value by a callable: not expressible in a schema
        if tkey(fd["type"]) in ("date", "enum", "data", "list:data"):
            for k in ("default", "plain_default", "factory", "defer_default"):
                f.pop(k, None)
        if not f:
            fd.pop("f", None)
    o = d.get("options") or {}
    for k in ("invalid_values", "invalid_items", "invalid_keys"):
        if o.get(k) == "preserve":
            o.pop(k)
    return d


def judge_data(case):
    d, mode, via = sanitize(case["decl"]), case.get("mode"), case.get("mode_via", "class")
    dspec.validate(d)
    if mode not in (None, "r", "w", "a") or via not in ("class", "generator"):
        raise HarnessError("bad mode")
    d = dict(d)
    o = dict(d.get("options") or {})
    o.pop("mode", None)
    if mode and via == "class":
        o["mode"] = mode
    d["options"] = o
    case = dict(case, decl=d)
    try:
        cls = dspec.build_decl(d)
        gm = mode if via == "generator" else None
        # (with shared_defs both views are generated as self-contained documents by two generators, one after the other, as a
        # caller publishing the input and the output schema of one class would do)
        in_schema = schema_of(cls, mode=gm, output=False, shared_defs=bool(case.get("shared_defs")))
        out_schema = schema_of(cls, mode=gm, output=True, shared_defs=bool(case.get("shared_defs")))
    except HarnessError:
        raise
    except decl_errors():
        return {"status": "discarded", "fails": []}
    V = validator()
    fails = []
    feats = data_feats(d, mode)
    try:
        js_in, js_out = to_json(in_schema), to_json(out_schema)
        V.check_schema(js_in)
        V.check_schema(js_out)
        for label, js in (("input", js_in), ("output", js_out)):
            missing = dangling_refs(js)
            if missing:
                return {"status": "ok", "accepted": 0, "feats": feats,
                        "fails": [(f"invalid-schema/dangling-ref/data/{label}-view", {"schema": oracle.short(js, 600), "missing": missing})]}
    except Exception as e:
        return {"status": "ok", "accepted": 0, "feats": feats,
                "fails": [(f"invalid-schema/{type(e).__name__}/data", {"schema": oracle.short(in_schema, 500), "error": str(e)[:300]})]}
    ropts = runtime_options(case)
    acc = 0
    # (2) outputs validate against the output schema
    for vs in case.get("inputs", []):
        out = parse(cls, codec.decode(vs), ropts)
        if out[0] != "ok" or not finite(out[1]):
            continue
        acc += 1
        try:
            doc = to_json(out[1])
        except Exception:
            continue
        errs = sorted(V(js_out).iter_errors(doc), key=lambda e: list(e.absolute_path))
        if errs:
            e = errs[0]
            why = "decimal-beyond-js-safe-range-encoded-as-string" if unsafe_decimal(out[1]) else culprit(errs)
            fails.append((f"output-violates-schema/{why}/data/via-{via}{'/shared-defs' if case.get('shared_defs') else ''}", {"json": oracle.short(doc), "schema": oracle.short(js_out, 500), "error": e.message[:200],
                                                                                   "mode": mode, "features": feats}))
            break
    # (3) structure of the input schema, behaviourally
    if js_in.get("type") == "object" and not o.get("case_insensitive"):
        fails += structure(case, cls, js_in, ropts, mode, via)
    return {"status": "ok", "accepted": acc, "fails": fails, "feats": feats}


def data_feats(d, mode):
    f = set()
    for fd in d["fields"]:
        ff = fd.get("f") or {}
        for k in ("alias", "alias_gen", "alias_from", "no_input", "no_output", "mode", "readonly", "writeonly", "required", "default", "factory", "plain_default"):
            if k in ff:
                f.add("mode" if k in ("readonly", "writeonly") else "alias" if k == "alias_gen" else k)
    for k in (d.get("options") or {}):
        f.add("opt:" + k)
    if mode:
        f.add("with-mode")
    return sorted(f)


def structure(case, cls, js_in, ropts, mode, via):
    d = case["decl"]
    opts = d.get("options") or {}
    props = js_in.get("properties") or {}
    required = set(js_in.get("required") or [])
    fails = []
    names = {fd["name"]: dspec.out_name(fd) for fd in d["fields"]}
    valid = {}
    for fd in d["fields"]:
        k = tkey(fd["type"])
        if k not in VALID:
            return []
        valid[fd["name"]] = VALID[k]
    full = {names[n]: v for n, v in valid.items()}
    base = parse(cls, dict(full), ropts)
    if base[0] != "ok":
        # some combination (dependencies, max_params ...) refuses even the all-valid input: no structural verdict
        return []
    for fd in d["fields"]:
        n, on = fd["name"], names[fd["name"]]
        f = fd.get("f") or {}
        # does feeding the field make the value land?
        inst = base[1]
        landed = False
        try:
            got = getattr(inst, n)
            want = oracle.outcome(__import__("utype").type_transform, valid[n], tspec.build(fd["type"]))
            landed = want[0] == "ok" and oracle.equal(oracle.plain(got), oracle.plain(want[1]))
        except AttributeError:
            landed = False
        listed = on in props
        if listed != landed:
            kind = "listed-but-input-ignored" if listed else "accepted-but-not-listed"
            fails.append((f"properties/{kind}/via-{via}", {"field": n, "name": on, "mode": mode, "field_spec": f, "listed": sorted(props)}))
        # is the field required?
        without = {k: v for k, v in full.items() if k != on}
        out = parse(cls, without, ropts)
        absent_err = out[0] == "perr" and any(k[0] == "AbsenceError" and k[1] in (n, on) for k in _kinds(out[1]))
        if (on in required) != absent_err:
            kind = "required-but-absence-tolerated" if on in required else "absence-is-an-error-but-not-required"
            fails.append((f"required/{kind}/via-{via}", {"field": n, "name": on, "mode": mode, "field_spec": f, "required": sorted(required),
                                                          "outcome": out[0] if out[0] == "ok" else str(out[1])[:120]}))
    # additionalProperties
    probe = dict(full)
    probe["zz_unknown"] = "7"
    out = parse(cls, probe, ropts)
    ap = js_in.get("additionalProperties", "absent")
    if out[0] == "perr":
        behaviour = "rejected" if any(k[0] == "ExceedError" for k in _kinds(out[1])) else None
    elif out[0] == "ok":
        inst = out[1]
        has = ("zz_unknown" in inst) if isinstance(inst, dict) else hasattr(inst, "zz_unknown")
        if not has:
            behaviour = "dropped"
        else:
            v = inst["zz_unknown"] if isinstance(inst, dict) else getattr(inst, "zz_unknown")
            behaviour = "kept" if v == "7" and isinstance(v, str) else "converted"
    else:
        behaviour = None
    want = {"rejected": False, "dropped": "absent", "kept": True}.get(behaviour)
    if behaviour == "converted":
        ok = isinstance(ap, dict)
    elif behaviour is None:
        ok = True
    else:
        ok = ap is want or ap == want
    if not ok:
        fails.append((f"additionalProperties/{behaviour}-but-schema-says-{ap if not isinstance(ap, dict) else 'schema'}/via-{via}",
                      {"mode": mode, "options": opts, "additionalProperties": ap}))
    return fails


def _kinds(e):
    from .c06 import kinds_of
    return kinds_of(e)


def run_case(case):
    try:
        kind = case["kind"]
    except (KeyError, TypeError):
        raise HarnessError("malformed case")
    try:
        if kind == "type":
            return judge_type(case)
        if kind == "data":
            return judge_data(case)
    finally:
        dspec.cleanup()
    raise HarnessError("bad kind")


def judge(case):
    return run_case(case)["fails"]


DATA_OPTIONS = st.fixed_dictionaries({}, optional={
    "addition": st.sampled_from([True, False, "int", "list_int"]), "case_insensitive": st.just(True), "ignore_required": st.just(True),
    "no_default": st.just(True),
})


def case_strategy(thorough):
    types = json_types(4 if thorough else 3).flatmap(lambda t: st.fixed_dictionaries({
        "kind": st.just("type"), "type": st.just(t), "inputs": st.lists(st.one_of(gen.conforming(t), gen.conforming(t), gen.scalars), min_size=2, max_size=5)}))
    ft = st.one_of(dspec.FIELD_TYPES, dspec.FIELD_TYPES, st.sampled_from(EXTRA_FIELD_TYPES))
    decls = dspec.decl_specs(rich=True, bases=("schema", "schema", "dataclass"), options=DATA_OPTIONS, max_fields=4, field_types=ft, name="D13")
    data = decls.flatmap(lambda d: st.fixed_dictionaries({
        "kind": st.just("data"), "decl": st.just(d), "mode": st.sampled_from([None, None, "r", "w", "a"]),
        "mode_via": st.sampled_from(["class", "class", "generator"]), "inputs": st.lists(dspec.inputs_for(d), min_size=1, max_size=4),
        "shared_defs": st.booleans()}))
    # two different nested classes competing for one $defs name, in one document
    twin_decl = st.permutations([{"name": "a", "type": {"k": "data", "d": INNER}}, {"name": "b", "type": {"k": "data", "d": INNER2}},
                                 {"name": "c", "type": {"k": "list", "a": {"k": "data", "d": INNER}}, "f": {"required": False}}]).map(
        lambda fs: {"name": "D13", "base": "schema", "fields": list(fs)})
    twins = twin_decl.flatmap(lambda d: st.fixed_dictionaries({
        "kind": st.just("data"), "decl": st.just(d), "mode": st.none(), "mode_via": st.just("class"), "shared_defs": st.just(True),
        "inputs": st.lists(st.fixed_dictionaries({"t": st.just("dict"), "v": st.just([["a", {"t": "dict", "v": [["p", 1]]}], ["b", {"t": "dict", "v": [["p", "s"]]}],
                                                                                     ["c", {"t": "list", "v": [{"t": "dict", "v": [["p", "3"]]}]}]])}), min_size=1, max_size=1)}))
    # numbers whose JSON form is delicate (many digits, tiny / large exponents, negative zero, integral decimals) for every
    # position a number can take in a document
    dec, flt = {"k": "leaf", "o": "decimal"}, {"k": "leaf", "o": "float"}
    num_types = st.sampled_from([dec, dec, flt, {"k": "list", "a": dec}, {"k": "opt", "a": dec, "m": "annotate"},
                                 {"k": "dict", "key": {"k": "leaf", "o": "str"}, "val": dec}, {"k": "con", "o": "decimal", "c": {"ge": -10}},
                                 {"k": "union", "a": [dec, {"k": "leaf", "o": "none"}], "m": "annotate"}, {"k": "tuple", "a": [dec, flt]}])
    torture = ["0.12345678901234567890", "2.000000000000000000001", "-1.2345678901234567890123", "123456.7890123456789", "1E-7", "1E-13", "0.1", "1.10",
               "-0", "-0.0", "5E+2", "1E+15", "9007199254740991", "9007199254740993", "0.30000000000000004", "1.7976931348623157E+308", "4.9E-324", "7.00000000000009"]
    dvals = st.sampled_from(torture).flatmap(lambda t: st.sampled_from([{"t": "decimal", "v": t}, t]))

    def shaped(t):
        k = t["k"]
        if k == "list":
            return st.lists(dvals, min_size=1, max_size=3).map(lambda v: {"t": "list", "v": v})
        if k == "dict":
            return st.lists(dvals, min_size=1, max_size=2).map(lambda v: {"t": "dict", "v": [[f"k{i}", e] for i, e in enumerate(v)]})
        if k == "tuple":
            return st.tuples(dvals, dvals).map(lambda v: {"t": "list", "v": list(v)})
        return dvals
    numbers = num_types.flatmap(lambda t: st.fixed_dictionaries({"kind": st.just("type"), "type": st.just(t), "inputs": st.lists(shaped(t), min_size=2, max_size=4)}))
    return st.one_of(numbers, numbers, types, types, types, types, types, types, data, data, data, data, data, data, data, data, data, data, data, data, twins)


def campaign(ctx):
    def body(case):
        r = run_case(case)
        ctx.label(f"{case['kind']}_{r['status']}")
        if r["status"] == "ok":
            if r.get("accepted"):
                ctx.label(f"{case['kind']}_with_accepted_input")
            if case["kind"] == "data":
                ctx.label(f"mode_{case.get('mode')}_via_{case.get('mode_via')}")
                if r.get("accepted") and (r.get("feats") or []):
                    ctx.nt(case)
                    ctx.sample("data", case)
            elif r.get("accepted") and case["type"]["k"] not in ("leaf",):
                ctx.nt(case)
                ctx.sample("type", case)
        ctx.fail_all(r["fails"], case)
    ctx.run_given(case_strategy(ctx.thorough), body, max_examples=ctx.n(1000, 10000))
