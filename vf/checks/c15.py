"""C15 - types built from a JSON Schema never crash nor emit what the schema forbids.

Generated: JSON Schemas from a grammar over exactly the supported fragment (type, format, numeric / length / pattern /
enum / const keywords, items / prefixItems, properties / required / additionalProperties / dependentRequired,
min/maxProperties, anyOf / oneOf / allOf with and without a sibling type), nested to depth 3, with property names
that are identifiers, non-identifiers, Python keywords, mapping-method names, underscore-led, and pairs colliding
after normalisation; instances valid by construction, mutated, and arbitrary JSON.
Oracle: (1) JsonSchemaParser(schema)() returns without any exception; (2) for every instance x, if the built type
returns v under Options(no_explicit_cast=True, no_data_loss=True) then the independent validator
(jsonschema Draft 2020-12) accepts the JSON encoding of v against the SOURCE schema.
"""
import json

from hypothesis import strategies as st

from .. import oracle
from ..core import HarnessError

ID = "C15"
RULE = ("(schema from the grammar, JSON instance); numeric bounds are integral or dyadic so that arithmetic is exact on both sides; non-trivial = the schema "
        "uses at least two keyword families or a hostile property name, and the built type accepts the instance; distinct = hash of (schema, instance)")
ASSUMPTIONS = [
    "independent validator: jsonschema.Draft202012Validator on the source schema (format is an annotation; pattern is a search)",
    "the built type is run through utype.type_transform(x, T, Options(no_explicit_cast=True, no_data_loss=True)); its output is JSON-encoded with utype.JSONEncoder",
    "enum/const members are JSON scalars (array/object members would be compared with Python equality, where [true] == [1])",
    "uniqueItems is generated too (the translator maps it); keywords outside the fragment are not generated: $ref, not, patternProperties, propertyNames, contains, type as an array, if/then/else",
]
SHARDS = {"quick": 4, "thorough": 16}

NAMES = ["a", "b", "name", "a-b", "a_b", "1x", "", "é", "class", "def", "items", "keys", "get", "update", "pop", "copy", "values", "_p", "__x", "a b", "A", "self", "x.y"]
FAMILIES = {
    "numeric": {"minimum", "maximum", "exclusiveMinimum", "exclusiveMaximum", "multipleOf"}, "length": {"minLength", "maxLength"}, "pattern": {"pattern"},
    "enum": {"enum", "const"}, "array": {"items", "prefixItems", "minItems", "maxItems", "uniqueItems"},
    "object": {"properties", "required", "additionalProperties", "dependentRequired", "minProperties", "maxProperties"}, "logic": {"anyOf", "oneOf", "allOf"},
    "format": {"format"},
}


def dyadic():
    return st.one_of(st.integers(-8, 8), st.integers(-16, 16).map(lambda i: i / 4))


@st.composite
def num_schema(draw, t=None):
    s = {"type": t or draw(st.sampled_from(["integer", "number"]))}
    lo = draw(st.sampled_from([None, "minimum", "exclusiveMinimum"]))
    hi = draw(st.sampled_from([None, "maximum", "exclusiveMaximum"]))
    a = draw(dyadic() if s["type"] == "number" else st.integers(-8, 8))
    if lo:
        s[lo] = a
    if hi:
        s[hi] = a + draw(st.integers(2, 6))
    if draw(st.booleans()) and draw(st.booleans()):
        s["multipleOf"] = draw(st.sampled_from([2, 3, 5, 0.5, 0.25] if s["type"] == "number" else [2, 3, 5]))
    if lo and draw(st.booleans()) and draw(st.booleans()) and draw(st.booleans()):
        # both bounds of one side (legal JSON Schema)
        s["minimum" if lo == "exclusiveMinimum" else "exclusiveMinimum"] = a - 1
    return s


@st.composite
def str_schema(draw):
    s = {"type": "string"}
    kind = draw(st.sampled_from(["plain", "len", "len", "pattern", "format", "mixed"]))
    if kind in ("len", "mixed"):
        lo = draw(st.integers(0, 3))
        if draw(st.booleans()):
            s["minLength"] = lo
        if draw(st.booleans()):
            s["maxLength"] = lo + draw(st.integers(0, 3))
    if kind in ("pattern", "mixed"):
        s["pattern"] = draw(st.sampled_from([r"^\d+$", r"^[a-z]+$", r"\d", r"^a", r"b$", r"^(ab)*$", r"^.{2,3}$"]))
    if kind == "format":
        s["format"] = draw(st.sampled_from(["date", "date-time", "time", "uuid", "duration", "binary", "email"]))
    return s


def enum_schema():
    vals = st.one_of(st.lists(st.integers(-2, 3), min_size=1, max_size=3, unique=True), st.lists(st.sampled_from(["a", "b", "", "1"]), min_size=1, max_size=3, unique=True),
                     st.just([None]), st.just([True, False]), st.just([1, "a", None]), st.just([1.5, 2]))
    return st.one_of(
        vals.map(lambda v: {"enum": v}),
        vals.map(lambda v: {"const": v[0]}),
        st.lists(st.integers(-2, 3), min_size=1, max_size=3, unique=True).map(lambda v: {"type": "integer", "enum": v}),
        st.lists(st.sampled_from(["a", "b", ""]), min_size=1, max_size=3, unique=True).map(lambda v: {"type": "string", "enum": v}),
        st.sampled_from([{"type": "string", "const": "a"}, {"type": "integer", "const": 1}, {"type": "boolean", "const": True}, {"type": "null", "const": None},
                         {"type": "number", "const": 1.5}]),
    )


def schemas(depth=3):
    leaf = st.one_of(num_schema(), num_schema(), num_schema(), str_schema(), str_schema(), str_schema(), enum_schema(),
                     st.sampled_from([{"type": "boolean"}, {"type": "null"}, {"type": "array"}, {"type": "object"}, {}]))
    if depth <= 0:
        return leaf
    sub = schemas(depth - 1)

    @st.composite
    def array(draw):
        s = {"type": "array"}
        kind = draw(st.sampled_from(["items", "items", "items", "prefix", "prefix+items", "prefix+items", "prefix+false", "bare", "false"]))
        if kind == "items":
            s["items"] = draw(sub)
        elif kind == "false":
            s["items"] = False        # only the empty array
        elif kind.startswith("prefix"):
            s["prefixItems"] = draw(st.lists(sub, min_size=1, max_size=3))
            if kind == "prefix+items":
                s["items"] = draw(sub)
            elif kind == "prefix+false":
                s["items"] = False
        if draw(st.booleans()) and draw(st.booleans()):
            s["uniqueItems"] = True
            if draw(st.booleans()):
                # items that stay containers (compared by ==, not by hash)
                s.pop("prefixItems", None)
                s["items"] = draw(st.sampled_from([{"type": "object"}, {"type": "array"}, {}]))
                if s["items"] == {}:
                    s.pop("items")
        if draw(st.booleans()):
            lo = draw(st.integers(0, 2))
            if draw(st.booleans()) and not (s.get("items") is False and "prefixItems" not in s):
                s["minItems"] = lo
            if draw(st.booleans()):
                s["maxItems"] = lo + draw(st.integers(0, 2))
        return s

    @st.composite
    def obj(draw):
        s = {"type": "object"}
        names = draw(st.lists(st.sampled_from(NAMES), min_size=0, max_size=4, unique=True))
        if names:
            s["properties"] = {n: draw(sub) for n in names}
        req = [n for n in names if draw(st.booleans())]
        if draw(st.booleans()) and draw(st.booleans()):
            req.append("zz")        # required without being a property
        if req:
            s["required"] = req
        ap = draw(st.sampled_from(["absent", "absent", True, False, "schema"]))
        if ap == "schema":
            s["additionalProperties"] = draw(sub)
        elif ap != "absent":
            s["additionalProperties"] = ap
        if len(names) >= 2 and draw(st.booleans()):
            s["dependentRequired"] = {names[0]: [names[1]]}
        if draw(st.booleans()) and draw(st.booleans()):
            s["minProperties"] = draw(st.integers(0, 2))
        if draw(st.booleans()) and draw(st.booleans()):
            s["maxProperties"] = max(draw(st.integers(1, 4)), s.get("minProperties", 0))
        return s

    @st.composite
    def logic(draw):
        k = draw(st.sampled_from(["anyOf", "anyOf", "oneOf", "allOf"]))
        # no empty subschema {} among the branches (oneOf [{}, {}] can never be satisfied: degenerate)
        s = {k: draw(st.lists(sub.filter(lambda x: bool(x)), min_size=1, max_size=3))}
        if draw(st.booleans()) and draw(st.booleans()):
            s["type"] = draw(st.sampled_from(["integer", "string", "object", "array", "number"]))
        return s
    return st.one_of(leaf, array(), array(), obj(), obj(), obj(), logic())


JSON_SCALARS = st.one_of(st.none(), st.booleans(), st.integers(-10, 10), st.integers(-40, 40).map(lambda i: i / 4),
                         st.sampled_from(["", "a", "b", "ab", "abc", "1", "12", "2020-01-02", "2020-01-02T03:04:05", "03:04:05", "12345678-1234-5678-1234-567812345678",
                                          "P1D", "x@y.z", "1.5", "true", "null"]))
ANY_JSON = st.recursive(JSON_SCALARS, lambda ch: st.one_of(st.lists(ch, max_size=3), st.dictionaries(st.sampled_from(NAMES + ["zz", "k"]), ch, max_size=3)), max_leaves=6)


def instance_for(s, depth=0):
    """best-effort strategy for instances that are valid for schema s (validity is decided by the validator, not assumed)"""
    if not isinstance(s, dict) or depth > 5:
        return ANY_JSON
    if "const" in s:
        return st.just(s["const"])
    if "enum" in s:
        return st.sampled_from(s["enum"])
    for k in ("anyOf", "oneOf", "allOf"):
        if k in s:
            return st.one_of(*[instance_for(x, depth + 1) for x in s[k]])
    t = s.get("type")
    if t == "integer" or t == "number":
        lo = s.get("minimum", s.get("exclusiveMinimum", -6))
        cands = [lo + d for d in (-1, 0, 0.25, 0.5, 1, 2, 3, 4, 6, 10)]
        if t == "integer":
            cands = [int(c) for c in cands if float(c).is_integer()] + [int(lo) + 1]
        m = s.get("multipleOf")
        if m:
            cands += [m * k for k in (-2, -1, 0, 1, 2, 3, 4, 6)]
        return st.sampled_from(cands)
    if t == "string":
        f = s.get("format")
        if f:
            return st.sampled_from({"date": ["2020-01-02"], "date-time": ["2020-01-02T03:04:05", "2020-01-02T03:04:05+08:00"], "time": ["03:04:05"],
                                    "uuid": ["12345678-1234-5678-1234-567812345678"], "duration": ["P1DT2H"], "binary": ["abc"], "email": ["x@y.z"]}[f] + ["zz"])
        return st.sampled_from(["", "a", "ab", "abc", "abcd", "abab", "1", "12", "123", "1234", "a1", "b", "xb", "aa"])
    if t == "boolean":
        return st.booleans()
    if t == "null":
        return st.none()
    if t == "array":
        pre = s.get("prefixItems") or []
        items = s.get("items")
        parts = [instance_for(p, depth + 1) for p in pre]
        rest = st.lists(instance_for(items, depth + 1) if isinstance(items, dict) else JSON_SCALARS, max_size=1 if items is False else 3)   # (an item where none is allowed: the type has to refuse it)
        base = st.tuples(st.tuples(*parts), rest).map(lambda t: list(t[0]) + t[1])
        if s.get("uniqueItems"):
            dups = st.sampled_from([[[1, 2], [1.0, 2]], [{"a": 1, "b": 2}, {"b": 2, "a": 1}], [[1], [1]], [1, 1.0], [1, True], ["a", "a"], [{"a": 1}, {"a": 2}], [[1], [2]]])
            return st.one_of(base, dups, dups, base.map(lambda v: v + v[:1]))
        return base
    if t == "object":
        props = s.get("properties") or {}
        req = set(s.get("required") or [])
        ap = s.get("additionalProperties", True)

        @st.composite
        def build(draw):
            d = {}
            for n, ps in props.items():
                if n in req or draw(st.booleans()):
                    d[n] = draw(instance_for(ps, depth + 1))
            for n in req:
                if n not in d:
                    d[n] = draw(JSON_SCALARS)
            if ap is not False and draw(st.booleans()):
                d["extra"] = draw(instance_for(ap, depth + 1) if isinstance(ap, dict) else JSON_SCALARS)
            return d
        return build()
    return ANY_JSON


def mutate(x):
    return st.one_of(st.just(x), st.just(x), ANY_JSON,
                     st.just(str(x)) if not isinstance(x, (dict, list)) else st.just(json.dumps(x)),
                     st.just([x]), st.just({"a": x}))


def validator(schema):
    import jsonschema
    return jsonschema.Draft202012Validator(schema)


def families(s, out=None):
    out = set() if out is None else out
    if isinstance(s, dict):
        for fam, keys in FAMILIES.items():
            if keys & set(s):
                out.add(fam)
        for v in s.values():
            families(v, out)
    elif isinstance(s, list):
        for v in s:
            families(v, out)
    return out


def hostile_names(s):
    found = set()

    def walk(x):
        if isinstance(x, dict):
            for n in (x.get("properties") or {}):
                if not n.isidentifier() or n in ("class", "def", "self") or hasattr(dict, n) or n.startswith("_"):
                    found.add(n)
            for v in x.values():
                walk(v)
        elif isinstance(x, list):
            for v in x:
                walk(v)
    walk(s)
    return found


def where_keys(schema, e):
    """keyword set of the schema node the validator error points at (root-cause key)"""
    node = schema
    path = list(e.absolute_schema_path)
    try:
        for p in path[:-1]:
            node = node[p]
    except Exception:
        return e.validator
    keys = sorted(k for k in node if k not in ("type",)) if isinstance(node, dict) else []
    return f"{e.validator}"


def run_case(case):
    import utype
    from utype.specs.json_schema.parser import JsonSchemaParser
    try:
        schema, instances = case["schema"], case["instances"]
    except (KeyError, TypeError):
        raise HarnessError("malformed case")
    if not isinstance(schema, dict) or not isinstance(instances, list):
        raise HarnessError("malformed case")
    try:
        V = validator(schema)
        V.check_schema(schema)
    except Exception:
        raise HarnessError("not a valid schema (generator / shrinker artefact)")
    if degenerate(schema):
        raise HarnessError("degenerate schema")
    fam = families(schema)
    hn = hostile_names(schema)
    built = oracle.outcome(lambda: JsonSchemaParser(json.loads(json.dumps(schema)))())
    if built[0] != "ok":
        e = built[1] if built[0] in ("other", "perr") else None
        name = type(e).__name__ if e is not None else "hang"
        return {"status": "build-failed", "fam": fam, "hostile": hn, "accepted": 0,
                "fails": [(f"build-raises/{name}/{_build_key(schema, e)}", {"error": str(e)[:300], "frame": oracle.utype_frame(e) if e is not None else None})]}
    T = built[1]
    opts = utype.Options(no_explicit_cast=True, no_data_loss=True)
    fails = []
    acc = 0
    for x in instances:
        try:
            xin = json.loads(json.dumps(x))
        except (TypeError, ValueError):
            raise HarnessError("instance is not JSON")
        out = oracle.reject_raw(oracle.outcome(utype.type_transform, xin, T, opts))
        if out[0] != "ok":
            if out[0] in ("other", "hang"):
                pass  # C04's subject
            continue
        acc += 1
        try:
            doc = json.loads(json.dumps(out[1], cls=utype.JSONEncoder))
        except Exception:
            continue
        errs = sorted(V.iter_errors(doc), key=lambda e: (len(list(e.absolute_path)), str(list(e.absolute_path))))
        if errs:
            e = _deepest(errs[0])
            q = _qual(schema, e)
            # a failing anyOf / oneOf reports every branch: the branch that explains the acceptance carries the root cause
            ranked = []
            for leaf in _leaves(errs[0]):
                ql = _qual(schema, leaf)
                if ql.startswith("/keywords-ignored"):
                    rank = 0
                elif ql.startswith("/allOf-"):
                    rank = 1
                elif leaf.validator == "required" and "name-is-not-a-property" in ql:
                    rank = 2
                elif leaf.validator in ("minProperties", "maxProperties"):
                    rank = 3
                elif leaf.validator == "oneOf" and not leaf.context:
                    # "valid under each of ...": the output satisfies several branches of a (nested) oneOf - the exclusive-or
                    # short-cut let it through; the other branches of the enclosing oneOf fail as they should
                    rank = 4
                else:
                    continue
                ranked.append((rank, leaf, ql))
            if ranked and not q.startswith(("/keywords-ignored", "/allOf-")):
                _, e, q = min(ranked, key=lambda t: t[0])
            fails.append((f"output-violates-schema{q}" if q.startswith(("/keywords-ignored", "/allOf-")) else f"output-violates-schema/{e.validator}{q}", {"input": x, "output": doc, "error": e.message[:200],
                                                                                   "schema_path": [str(p) for p in e.absolute_schema_path][:12]}))
            break
    return {"status": "built", "fam": fam, "hostile": hn, "accepted": acc, "fails": fails}


def _leaves(e):
    if not e.context:
        return [e]
    out = []
    for c in e.context:
        out += _leaves(c)
    return out


def degenerate(s):
    """schemas no instance can satisfy / empty branches: produced by shrinking, not part of the quantified domain"""
    if isinstance(s, dict):
        if s.get("enum") == []:
            return True
        for k in ("anyOf", "oneOf", "allOf"):
            if k in s and (not isinstance(s[k], list) or not s[k] or any(x == {} or not isinstance(x, dict) for x in s[k])):
                return True
        if s.get("items") is False and "prefixItems" not in s and s.get("minItems", 0) > 0:
            return True
        for lo, hi in (("minProperties", "maxProperties"), ("minItems", "maxItems"), ("minLength", "maxLength")):
            if lo in s and hi in s and s[lo] > s[hi]:
                return True
        return any(degenerate(v) for v in s.values())
    if isinstance(s, list):
        return any(degenerate(v) for v in s)
    return False


def _deepest(e):
    while e.context:
        # anyOf / oneOf: descend into the branch with the deepest path (closest to the intended one)
        e = max(e.context, key=lambda c: len(list(c.absolute_schema_path)))
    return e


def _qual(schema, e):
    """root cause of an output the schema forbids: the first node on the path (from the root) whose keywords the translator
    is known to skip; otherwise qualifiers of the failing node"""
    node = schema
    nodes = [schema]
    try:
        name_map = False          # True while `node` is a mapping of names (properties / dependentRequired), not a schema
        for p in list(e.absolute_schema_path)[:-1]:
            node = node[p]
            if name_map:
                name_map = False
                if isinstance(node, dict):
                    nodes.append(node)
            elif p in ("properties", "dependentRequired", "$defs", "patternProperties"):
                name_map = True
            elif isinstance(node, dict):
                nodes.append(node)
    except Exception:
        return ""
    structural = set().union(*(FAMILIES[f] for f in ("numeric", "length", "pattern", "array", "object")))
    # `items` next to `prefixItems` is translated into Options(addition=T) on the tuple type; a type's own options only count
    # when it is called directly without caller options, so below an object property the extra items are not parsed at all
    walk = schema
    try:
        # (the last path element included: with `items: false` the violated keyword is `items` itself)
        for p in list(e.absolute_schema_path):
            if p == "items" and isinstance(walk, dict) and "prefixItems" in walk:
                return "/keywords-ignored:items-next-to-prefixItems"
            walk = walk[p]
    except Exception:
        pass
    for n in nodes:
        if not isinstance(n, dict):
            continue
        logic = [k for k in ("anyOf", "oneOf", "allOf") if k in n]
        if "type" in n and logic:
            return "/keywords-ignored:logic-next-to-type"
        if "type" not in n and (structural & set(n)) and not logic and "enum" not in n and "const" not in n:
            return "/keywords-ignored:node-without-type"
        if n.get("type") == "object" and not n.get("properties") and ({"required", "minProperties", "maxProperties", "additionalProperties", "dependentRequired"} & set(n)):
            return "/keywords-ignored:object-without-properties"
    if "allOf" in [str(p) for p in e.absolute_schema_path]:
        return "/allOf-branches-applied-as-a-conversion-sequence"
    node = nodes[-1]
    q = []
    if e.validator == "type" and ("enum" in node or "const" in node):
        q.append("with-enum-or-const")
    if e.validator == "required":
        q.append("name-is-not-a-property" if any(r not in (node.get("properties") or {}) for r in node.get("required", [])) else "property")
    if e.validator in ("enum", "const") and "type" not in node:
        q.append("without-type")
    return "/" + "+".join(q) if q else ""


def _build_key(schema, e):
    msg = str(e) if e is not None else ""
    import re
    msg = re.sub(r"'[^']*'|\"[^\"]*\"|\d+(\.\d+)?", "_", msg)
    msg = re.sub(r"<[^>]*>", "_", msg)
    return re.sub(r"[^A-Za-z_ ]+", "", msg)[:60].strip().replace(" ", "-")


def judge(case):
    return run_case(case)["fails"]


@st.composite
def constrained_leaf(draw):
    """a scalar schema that certainly carries a constraint, with values on both sides of it"""
    kind = draw(st.sampled_from(["min", "max", "mult", "minlen", "maxlen", "pattern", "enum"]))
    if kind in ("min", "max", "mult"):
        t = draw(st.sampled_from(["integer", "number"]))
        b = draw(st.integers(-4, 6))
        if kind == "min":
            return {"type": t, draw(st.sampled_from(["minimum", "exclusiveMinimum"])): b}, [b - 1, b, b + 1]
        if kind == "max":
            return {"type": t, draw(st.sampled_from(["maximum", "exclusiveMaximum"])): b}, [b - 1, b, b + 1]
        if draw(st.booleans()):
            return {"type": t, "multipleOf": 2}, [10 ** 17 + 1, 10 ** 17, 2 ** 53 + 1, 4]      # beyond the exact range of a double
        return {"type": t, "multipleOf": 3}, [3, 4, 6, 7]
    if kind == "minlen":
        return {"type": "string", "minLength": 2}, ["a", "ab", "abc", ""]
    if kind == "maxlen":
        return {"type": "string", "maxLength": 2}, ["a", "ab", "abc", "abcd"]
    if kind == "pattern":
        return {"type": "string", "pattern": "^[a-z]+$"}, ["ab", "a1", "", "AB"]
    return {"type": "string", "enum": ["a", "b"]}, ["a", "b", "c", ""]


@st.composite
def near_miss_cases(draw):
    """constrained schemas in every POSITION a subschema can take (property, branch of a combinator under a property, array item,
    prefix item, additionalProperties, nested object), with type-correct values on both sides of each bound"""
    leaves = [draw(constrained_leaf()) for _ in range(draw(st.integers(1, 3)))]
    pos = draw(st.sampled_from(["property", "property-logic", "property-logic", "items", "prefix", "additional", "nested", "logic-top", "items-logic"]))
    comb = draw(st.sampled_from(["anyOf", "anyOf", "oneOf", "allOf"]))
    sub = leaves[0][0] if len(leaves) == 1 or "logic" not in pos else {comb: [l[0] for l in leaves]}
    vals = [v for l in leaves for v in l[1]] if "logic" in pos else list(leaves[0][1])
    v = draw(st.sampled_from(vals))
    name = draw(st.sampled_from(["x", "a-b", "items", "class"]))
    if pos.startswith("property"):
        return {"schema": {"type": "object", "properties": {name: sub}}, "instances": [{name: v}, {name: draw(st.sampled_from(vals))}]}
    if pos in ("items", "items-logic"):
        return {"schema": {"type": "array", "items": sub}, "instances": [[v], [draw(st.sampled_from(vals)), v]]}
    if pos == "prefix":
        return {"schema": {"type": "array", "prefixItems": [{"type": "boolean"}, sub]}, "instances": [[True, v]]}
    if pos == "additional":
        return {"schema": {"type": "object", "properties": {"k": {"type": "integer"}}, "additionalProperties": sub}, "instances": [{"k": 1, "zz": v}]}
    if pos == "nested":
        return {"schema": {"type": "object", "properties": {"o": {"type": "object", "properties": {name: sub}}}}, "instances": [{"o": {name: v}}]}
    return {"schema": sub if isinstance(sub, dict) and comb in sub else {comb: [sub]}, "instances": [v, draw(st.sampled_from(vals))]}


def case_strategy(thorough):
    sch = schemas(3 if thorough else 2)
    main = sch.flatmap(lambda s: st.fixed_dictionaries({
        "schema": st.just(s), "instances": st.lists(instance_for(s).flatmap(mutate), min_size=2, max_size=5)}))
    return st.one_of(main, main, main, main, near_miss_cases())


def campaign(ctx):
    def body(case):
        r = run_case(case)
        ctx.label(f"status_{r['status']}")
        for f in r["fam"]:
            ctx.label(f"family_{f}")
        if r["hostile"]:
            ctx.label("hostile_property_name")
        if r["accepted"]:
            ctx.label("with_accepted_instance")
        if r["accepted"] and (len(r["fam"]) >= 2 or r["hostile"]):
            ctx.nt(case)
            ctx.sample("built", case)
        ctx.fail_all(r["fails"], case)
    ctx.run_given(case_strategy(ctx.thorough), body, max_examples=ctx.n(1500, 12000))
    # every constraint keyword x every position a subschema can take (alone and as a branch of each combinator), with values on both
    # sides of the bound: enumerated completely on every run (seed independent)
    LEAVES = [({"type": "integer", "minimum": 3}, [2, 3, 4]), ({"type": "integer", "exclusiveMinimum": 3}, [3, 4]), ({"type": "number", "maximum": 3}, [3, 4, 2.5]),
              ({"type": "integer", "exclusiveMaximum": 3}, [2, 3]), ({"type": "integer", "multipleOf": 3}, [3, 4]), ({"type": "integer", "multipleOf": 2}, [10 ** 17 + 1, 10 ** 17, 2 ** 53 + 1]), ({"type": "number", "multipleOf": 2}, [10 ** 17 + 1, 9007199254740993]),
              ({"type": "integer", "minimum": 2 ** 53}, [2 ** 53 - 1, 2 ** 53, 2 ** 53 + 1]), ({"type": "integer", "exclusiveMaximum": 2 ** 53 + 1}, [2 ** 53, 2 ** 53 + 1]), ({"type": "string", "minLength": 2}, ["a", "ab"]),
              ({"type": "string", "maxLength": 2}, ["ab", "abc"]), ({"type": "string", "pattern": "^[a-z]+$"}, ["ab", "a1"]), ({"type": "string", "enum": ["a", "b"]}, ["a", "c"]),
              ({"type": "array", "items": {"type": "integer"}, "minItems": 2}, [[1], [1, 2]]), ({"type": "array", "items": {"type": "integer"}, "maxItems": 1}, [[1], [1, 2]]),
              ({"type": "array", "items": {"type": "integer"}, "uniqueItems": True}, [[1, 2], [1, 1]]),
              # keywords side by side: enum / const next to bounds, keywords of another type (JSON Schema ignores them), bounds of mixed number types, equal bounds
              ({"type": "integer", "enum": [1, 10], "minimum": 5}, [1, 10]), ({"type": "string", "enum": ["a", "abc"], "maxLength": 2}, ["a", "abc"]),
              ({"type": "string", "maxLength": 2, "maxItems": 5}, ["ab", "abc"]), ({"type": "string", "minLength": 2, "minItems": 0, "minimum": 0}, ["a", "ab"]),
              ({"type": "array", "items": {"type": "integer"}, "maxItems": 2, "maxLength": 1}, [[1, 2], [1, 2, 3]]), ({"type": "integer", "maximum": 5, "maxLength": 0, "pattern": "^a"}, [5, 6]),
              ({"type": "number", "minimum": 1, "maximum": 2.5}, [2, 3, 0.5]), ({"type": "number", "exclusiveMinimum": 0, "maximum": 0.5}, [0.25, 0, 1]),
              ({"type": "integer", "minimum": 1, "maximum": 1}, [1, 2]), ({"type": "number", "minimum": 0.5, "maximum": 0.5}, [0.5, 1]),
              ({"type": "array", "items": True}, [[1, "a"]]), ({"type": "array", "items": True, "maxItems": 1}, [[1], [1, 2]])]
    idx = 0
    for leaf, vals in LEAVES:
        other = {"type": "boolean"}
        for wrap in ("plain", "anyOf", "oneOf", "allOf"):
            sub = leaf if wrap == "plain" else {wrap: [leaf] if wrap == "allOf" else [leaf, other]}
            for pos in ("top", "property", "items", "prefix", "additional", "nested"):
                idx += 1
                if idx % ctx.nshards != ctx.shard:
                    continue
                if pos == "top":
                    case = {"schema": sub, "instances": list(vals)}
                elif pos == "property":
                    case = {"schema": {"type": "object", "properties": {"p": sub}}, "instances": [{"p": v} for v in vals]}
                elif pos == "items":
                    case = {"schema": {"type": "array", "items": sub}, "instances": [[v] for v in vals]}
                elif pos == "prefix":
                    case = {"schema": {"type": "array", "prefixItems": [other, sub]}, "instances": [[True, v] for v in vals]}
                elif pos == "additional":
                    case = {"schema": {"type": "object", "properties": {"k": {"type": "integer"}}, "additionalProperties": sub}, "instances": [{"k": 1, "zz": v} for v in vals]}
                else:
                    case = {"schema": {"type": "object", "properties": {"o": {"type": "object", "properties": {"p": sub}}}}, "instances": [{"o": {"p": v}} for v in vals]}
                ctx.ev()
                try:
                    body(case)
                except HarnessError:
                    ctx.label("grid_case_refused")
    # every instance kind against every pair of scalar types in a union (a JSON boolean is no integer, an integer is no boolean,
    # 1.0 is an integer): all pairs, both orders, anyOf and oneOf, three positions - enumerated completely
    SCALAR_TYPES = ["integer", "number", "string", "boolean", "null"]
    KINDS = [True, False, 0, 1, -2, 1.0, 1.5, "1", "a", "true", "", None]
    for a in SCALAR_TYPES:
        for b in SCALAR_TYPES:
            if a == b:
                continue
            for wrap in ("anyOf", "oneOf"):
                sub = {wrap: [{"type": a}, {"type": b}]}
                for pos in ("top", "property", "items"):
                    idx += 1
                    if idx % ctx.nshards != ctx.shard:
                        continue
                    if pos == "top":
                        case = {"schema": sub, "instances": list(KINDS)}
                    elif pos == "property":
                        case = {"schema": {"type": "object", "properties": {"p": sub}}, "instances": [{"p": v} for v in KINDS]}
                    else:
                        case = {"schema": {"type": "array", "items": sub}, "instances": [[v] for v in KINDS] + [list(KINDS)]}
                    ctx.ev()
                    try:
                        body(case)
                    except HarnessError:
                        ctx.label("grid_case_refused")
    ctx.extra["position_grid_exhaustive"] = True
    from .. import core as _core
    import sys as _sys
    _core.fuzz_tier_hyp(ctx, _sys.modules[__name__])
