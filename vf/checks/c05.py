"""C05 - data-class parsing implements the declared field contract.

Generated: data-class declarations over the Field parameters (required incl. mode strings, default, default_factory,
defer_default, alias, alias generators, alias_from, case_insensitive, no_input / no_output incl. mode strings,
mode / readonly / writeonly, dependencies, on_error) and class Options (mode, case_insensitive, addition None / True /
False / type, ignore_required, no_default, defer_default, ignore_alias_conflicts, min/max_params, invalid_values) on the
three bases; input mappings over the declared names, their aliases, case variants and extra keys, with valid,
convertible and invalid values.
Oracle: a REFERENCE MODEL of the documented field contract (docs/en/references/field.md, options.md, guide/cls.md),
written independently of the parser: key -> field resolution, no_input, mode filtering, required / absence, defaults
(deferred ones reachable by attribute only), no_output (attribute only), dependencies (a default does not count as
provided), addition policy, the listed Options.  Compared: the verdict; on success the key view, the attribute of
every field (value or AttributeError) and membership; on failure the exception kind must be one the model finds.
"""
from hypothesis import strategies as st

from .. import codec, dspec, entries, oracle, tspec
from ..core import HarnessError
from .c01 import decl_errors

ID = "C05"
RULE = ("(declaration, class options, input mapping); non-trivial = at least two contract features meet on a key that is present in the input or on an omitted "
        "field (alias x case-insensitive, default x no_input x mode, dependency, addition x alias, required mode string ...); distinct = hash of the case")
ASSUMPTIONS = [
    "value conversion of a single field = utype.type_transform(value, field type) (judged by C01/C02); this check judges which value ends up where",
    "silent (counted): one field fed under several names with unequal raw values (conflict semantics are C06's subject); callable no_input / no_output; Final fields; "
    "@property fields (C07); a field whose invalid value is excluded and that names dependencies (whether it counts as provided is not specified)",
    "subclasses: the contract is the parent's fields that are not redeclared plus the class's own declarations, under the class's options; the parent is declared "
    "with the same case_insensitive choice (letter-case handling of a field is fixed where the field is declared)",
    "fail-fast order is unspecified: the raised error must be ONE of the failures the model finds",
    "silent (counted): an unknown key that names a method / ClassVar of the class (the library never carries it as an addition, whatever the policy; undocumented)",
]
SHARDS = {"quick": 4, "thorough": 16}

MISSING = object()


def sanitize(d):
    import json
    d = json.loads(json.dumps(d))
    for fd in d["fields"] + list((d.get("parent") or {}).get("fields", [])):
        f = fd.get("f") or {}
        for k in ("no_input", "no_output"):
            if isinstance(f.get(k), str) and f[k].startswith("fn:"):
                f.pop(k)
        f.pop("final", None)
        f.pop("immutable", None)
        if not f:
            fd.pop("f", None)
    return d


def fmode(f):
    if f.get("readonly"):
        return "r"
    if f.get("writeonly"):
        return "w"
    return f.get("mode")


def has_default(f):
    return any(k in f for k in ("default", "plain_default", "factory"))


def default_value(f):
    for k in ("default", "plain_default"):
        if k in f:
            return codec.decode(f[k]["v"])
    return dspec.FACTORIES[f["factory"]]()


def decl_required(f):
    r = f.get("required", None)
    if has_default(f) and not isinstance(r, str):
        return False
    if r is None:
        return True
    return r


def always_no_input(f, m):
    ni = f.get("no_input")
    if ni is True:
        return True
    if not m:
        return False
    if isinstance(ni, str) and m in ni:
        return True
    fm = fmode(f)
    if fm:
        return m not in fm
    return False


def is_required(f, o):
    m = o.get("mode")
    r = decl_required(f)
    if o.get("ignore_required") or not r:
        return False
    if always_no_input(f, m):
        return False
    if r is True:
        return True
    if not m:
        return False
    return m in r


def excluded_by(f, key, m):
    """no_input / no_output of a value in mode m (non-callable forms)"""
    v = f.get(key)
    if v is True:
        return True
    if not m:
        return False
    if isinstance(v, str) and m in v:
        return True
    fm = fmode(f)
    if fm:
        return m not in fm
    return False


def model(d, pairs):
    """-> dict(verdict='ok'|'fail'|None, failures=set(kinds), keys={}, attrs={name: value|MISSING}, unspecified=reason|None)"""
    o = d.get("options") or {}
    m = o.get("mode")
    fields = d["fields"]
    data = [(k, v) for k, v in pairs]
    failures = set()
    if o.get("max_params") and len(data) > o["max_params"]:
        failures.add(("ParamsExceedError", None))
    if o.get("min_params") and len(data) < o["min_params"]:
        failures.add(("ParamsLackError", None))
    # key -> field
    taken = {}
    by_field = {fd["name"]: [] for fd in fields}
    for k, v in data:
        hit = None
        for fd in fields:
            names = dspec.in_names(fd)
            if k in names or (dspec.is_ci(fd, o) and k.lower() in [n.lower() for n in names]):
                if hit is not None and hit is not fd:
                    return {"verdict": None, "unspecified": "key-matches-two-fields"}
                hit = fd
        if hit is not None:
            by_field[hit["name"]].append((k, v))
            taken[k] = hit["name"]
    result = {}          # field name -> value that the field holds after parsing
    provided, took_input = set(), set()
    policy_default = o.get("invalid_values", "throw")
    conv_opts = entries.make_options({k: v for k, v in o.items() if k in ("invalid_values",)})
    reg = {}
    import utype
    for fd in fields:
        f = fd.get("f") or {}
        n = fd["name"]
        out = dspec.out_name(fd)
        given = by_field[n]
        vals = [codec.decode(v) for _, v in given]
        if len(vals) > 1:
            try:
                # the library compares the raw input values with `!=` (NaN, fresh objects: unequal)
                same = all(not (vals[0] != x) for x in vals[1:])
            except Exception:
                same = False
            if not same:
                return {"verdict": None, "unspecified": "several-names-unequal-values"}
            if not all(oracle.equal(vals[0], x) for x in vals[1:]):
                # equal for `!=` but not the same value (108 and 108.0, True and 1): no conflict is raised, and WHICH of them
                # stands for the field is the lookup strategies' business (C06) - they convert differently
                return {"verdict": None, "unspecified": "several-names-equal-but-distinct-values"}
        avail = has_default(f) and not o.get("no_default")
        deferred = avail and (f.get("defer_default") or o.get("defer_default"))
        if not given:
            if is_required(f, o):
                failures.add(("AbsenceError", out))
                continue
            if avail and not deferred:
                result[n] = default_value(f)
            continue
        provided.add(n)
        value = vals[0]
        if excluded_by(f, "no_input", m):
            if avail and not deferred:
                result[n] = default_value(f)
            continue
        T = tspec.build(fd["type"], decl_builder=lambda dd: reg.setdefault(dd.get("name"), dspec.build_decl(dd)))
        r = oracle.reject_raw(oracle.outcome(utype.type_transform, value, T, conv_opts))
        if r[0] == "ok":
            result[n] = r[1]
            took_input.add(n)
        elif r[0] == "perr":
            pol = f.get("on_error") or policy_default
            if pol == "preserve":
                result[n] = value
                took_input.add(n)
            elif pol == "exclude":
                if f.get("dependencies"):
                    # "provided" for the dependency rule: the field was given but its value was dropped - not specified
                    return {"verdict": None, "unspecified": "excluded-field-with-dependencies"}
                if is_required(f, o):
                    failures.add(("ParseError", out))
                elif avail and not deferred:
                    result[n] = default_value(f)
            else:
                failures.add(("ParseError", out))
        else:
            return {"verdict": None, "unspecified": "conversion-internal-error"}
    # dependencies of fields that took input
    lack = set()
    names = {fd["name"]: fd for fd in fields}
    alias_to_name = {}
    for fd in fields:
        for nm in dspec.in_names(fd):
            alias_to_name[nm] = fd["name"]
    for fd in fields:
        f = fd.get("f") or {}
        if fd["name"] in took_input and f.get("dependencies"):
            for dep in f["dependencies"]:
                dn = alias_to_name.get(dep, dep)
                if dn not in provided or dn not in result:
                    lack.add(dspec.out_name(names[dn]) if dn in names else dep)
    if lack:
        failures.add(("DependenciesAbsenceError", tuple(sorted(lack))))
    # addition
    addition = o.get("addition")
    extra = {}
    members = {x["name"] for x in (d.get("extras") or []) + ((d.get("parent") or {}).get("extras") or [])}
    for k, v in data:
        if k in taken:
            continue
        if k in members:
            # a key that names a method / ClassVar of the class: the library never carries it as an addition ("excluded vars cannot
            # be carry in addition even if allowed" - BaseParser.parse_addition), the documents say nothing: not judged
            return {"verdict": None, "unspecified": "unknown-key-names-a-non-field-member"}
        val = codec.decode(v)
        if addition is False:
            failures.add(("ExceedError", k))
        elif addition is True:
            extra[k] = val
        elif addition == "int":
            r = oracle.reject_raw(oracle.outcome(utype.type_transform, val, int))
            if r[0] == "ok":
                extra[k] = r[1]
            elif policy_default == "preserve":
                extra[k] = val
            elif policy_default == "throw":
                failures.add(("ParseError", k))
    if failures:
        return {"verdict": "fail", "failures": failures, "unspecified": None}
    keys, attrs = {}, {}
    for fd in fields:
        f = fd.get("f") or {}
        n = fd["name"]
        if n in result:
            attrs[n] = result[n]
            if not excluded_by(f, "no_output", m):
                keys[dspec.out_name(fd)] = result[n]
        else:
            avail = has_default(f) and not o.get("no_default")
            deferred = avail and (f.get("defer_default") or o.get("defer_default"))
            attrs[n] = default_value(f) if deferred else MISSING
    keys.update(extra)
    return {"verdict": "ok", "keys": keys, "attrs": attrs, "extra": extra, "unspecified": None}


def run_case(case):
    try:
        d, vs = sanitize(case["decl"]), case["input"]
    except (KeyError, TypeError):
        raise HarnessError("malformed case")
    dspec.validate(d)
    if not isinstance(vs, dict) or vs.get("t") != "dict":
        raise HarnessError("input must be a dict spec")
    pairs = [(k, v) for k, v in vs["v"]]
    if not all(isinstance(k, str) for k, _ in pairs) or len({k for k, _ in pairs}) != len(pairs):
        raise HarnessError("string, distinct keys only")
    from .c09 import _one_shot_spec
    if _one_shot_spec(vs):
        raise HarnessError("one-shot value")
    try:
        try:
            cls = dspec.build_decl(d)
            d = dspec.resolve_naming(d)      # class-level alias generators written out per field (model only; the class is built above)
            if d.get("parent"):
                # the contract of a subclass: the parent's fields it does not redeclare, then its own declarations
                d = dict(d, fields=dspec.all_fields(d))
            mod = model(d, pairs)
        except HarnessError:
            raise
        except decl_errors():
            return {"status": "discarded", "fails": []}
        if mod["verdict"] is None:
            return {"status": "unspecified", "fails": [], "why": mod["unspecified"]}
        out = oracle.outcome(dspec.from_data(cls), codec.decode(vs))
        if out[0] in ("other", "hang"):
            return {"status": "other", "fails": []}
        fails = []
        feats = features(d, pairs)
        det = {"features": feats, "options": d.get("options") or {}}
        if mod["verdict"] == "fail":
            if out[0] == "ok":
                kinds = sorted(mod["failures"], key=repr)
                fails.append((f"accepted-although-the-contract-demands/{kinds[0][0]}", dict(det, expected=repr(kinds), got=oracle.short(oracle.plain(out[1]), 300))))
            else:
                from .c06 import kinds_of
                got = kinds_of(out[1])
                # items are reported under the output name or the attribute name
                ok = any(gk == mk and (mi is None or gi == mi or gk in ("DependenciesAbsenceError",) or _same_item(d, gi, mi)) for gk, gi in got for mk, mi in mod["failures"])
                if not ok:
                    fails.append((f"fails-with-another-error/{sorted(got, key=repr)[0][0]}", dict(det, expected=repr(sorted(mod["failures"], key=repr)), got=repr(sorted(got, key=repr)))))
            return {"status": "rejected", "fails": fails, "feats": feats}
        if out[0] == "perr":
            from .c06 import kinds_of
            k = sorted(kinds_of(out[1]), key=repr)
            fails.append((f"rejected-although-the-contract-accepts/{k[0][0]}", dict(det, error=str(out[1])[:200], kinds=repr(k))))
            return {"status": "accepted", "fails": fails, "feats": feats}
        inst = out[1]
        is_schema = isinstance(inst, dict)
        if is_schema:
            got_keys = {k: v for k, v in dict.items(inst)}
            if not oracle.equal(oracle.plain(got_keys), oracle.plain(mod["keys"])):
                diff = sorted(set(got_keys) ^ set(mod["keys"])) or sorted(k for k in got_keys if not oracle.equal(oracle.plain(got_keys[k]), oracle.plain(mod["keys"].get(k))))
                fails.append((f"key-view-differs/{_why(d, diff, mod, got_keys)}", dict(det, expected=oracle.short(oracle.plain(mod["keys"]), 300), got=oracle.short(oracle.plain(got_keys), 300), keys=diff)))
        for fd in d["fields"]:
            n = fd["name"]
            try:
                v = getattr(inst, n)
                have = True
            except AttributeError:
                have, v = False, None
            want = mod["attrs"][n]
            if (want is MISSING) == have or (have and not oracle.equal(oracle.plain(v), oracle.plain(want))):
                fails.append((f"attribute-view-differs/{'unexpected-value' if have else 'missing'}/{_ff(fd)}", dict(det, field=n, expected="<absent>" if want is MISSING else oracle.short(want),
                                                                                                               got=oracle.short(v) if have else "<AttributeError>")))
                break
            if is_schema:
                want_in = dspec.out_name(fd) in mod["keys"]
                if (n in inst) != want_in:
                    fails.append((f"membership-differs/{_ff(fd)}", dict(det, field=n, expected=want_in)))
                    break
        return {"status": "accepted", "fails": fails[:2], "feats": feats}
    finally:
        dspec.cleanup()


def _same_item(d, gi, mi):
    for fd in d["fields"]:
        if gi in (fd["name"], dspec.out_name(fd)) and mi in (fd["name"], dspec.out_name(fd)):
            return True
        if isinstance(gi, str) and isinstance(mi, str) and gi.lower() == mi.lower():
            return True
    return False


def _ff(fd):
    f = fd.get("f") or {}
    keys = sorted(k for k in f if k in ("no_input", "no_output", "mode", "readonly", "writeonly", "defer_default", "default", "plain_default", "factory", "required", "on_error", "alias", "alias_gen"))
    return "+".join(keys) or "plain"


def _why(d, diff, mod, got):
    for fd in d["fields"]:
        if dspec.out_name(fd) in diff or fd["name"] in diff:
            return _ff(fd)
    return "extra-key"


def features(d, pairs):
    o = d.get("options") or {}
    keys = [k for k, _ in pairs]
    feats = set("opt:" + k for k in o)
    for fd in d["fields"]:
        f = fd.get("f") or {}
        names = dspec.in_names(fd)
        mine = [k for k in keys if k in names or (dspec.is_ci(fd, o) and k.lower() in [n.lower() for n in names])]
        for k in mine:
            if k != fd["name"]:
                feats.add("alias-or-case-variant-used")
        for k in ("no_input", "no_output", "mode", "readonly", "writeonly", "dependencies", "defer_default", "on_error"):
            if k in f and (mine or k in ("defer_default",)):
                feats.add(k)
        if isinstance(f.get("required"), str):
            feats.add("required-mode-string")
        if not mine and has_default(f):
            feats.add("default-used")
    return sorted(feats)


def judge(case):
    return run_case(case)["fails"]


def case_strategy():
    decls = dspec.decl_specs(options=dspec.CLASS_AND_NAMING_OPTIONS, inherit=True, extras=True)
    return decls.flatmap(lambda d: st.fixed_dictionaries({"decl": st.just(d), "input": dspec.inputs_for(d)}))


def campaign(ctx):
    def body(case):
        vs = case["input"]
        keys = [p[0] for p in vs["v"]]
        if len(set(keys)) != len(keys) or not all(isinstance(k, str) for k in keys):
            ctx.label("discarded_duplicate_keys")
            return
        from .c09 import _one_shot_spec
        if _one_shot_spec(vs):
            ctx.label("discarded_one_shot")
            return
        r = run_case(case)
        ctx.label(f"status_{r['status']}")
        if r["status"] == "unspecified":
            ctx.label(f"unspecified_{r['why']}")
        if r["status"] in ("accepted", "rejected"):
            if any(k in (case["decl"].get("options") or {}) for k in dspec.NAMING_KEYS):
                ctx.label("class_level_alias_generators")
            if case["decl"].get("parent"):
                ctx.label("subclass_of_a_generated_parent")
                if any(p[0] in dspec.stale_names(case["decl"]) for p in vs["v"]):
                    ctx.label("input_uses_a_name_only_the_parent_accepted")
            for f in r["feats"]:
                ctx.label(f"feature_{f}")
            if len(r["feats"]) >= 2:
                ctx.nt(case)
                ctx.sample(r["status"], case)
        ctx.fail_all(r["fails"], case)
    ctx.run_given(case_strategy(), body, max_examples=ctx.n(1500, 15000))
