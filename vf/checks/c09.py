"""C09 - logical type combinators mean what they say.

Generated: a combinator (| ^ & ~) over 1-4 argument types (leaves: builtins, constrained, generic, literal, enum,
data classes; arguments may themselves be combinators) built through the operators, the any_of/one_of/all_of/not_of
constructors or typing.Union/Optional, in a drawn argument order, plus an input value.
Oracle: truth-table semantics computed from the STANDALONE verdict of every argument on the original input
(union: exact-type passthrough, accepted <=> some argument accepts, result conforms to an accepting argument;
xor: accepted <=> exactly one argument accepts, same verdict and value for every permutation; not: accepted <=>
argument rejects, result is the input; and: left fold of the arguments over the running value), and the
construction algebra (double negation, duplicates, Any, flattening).
"""
import itertools
import operator
import typing

from hypothesis import strategies as st

from .. import codec, dspec, entries, gen, oracle, tspec
from ..core import HarnessError
from .c01 import decl_errors

ID = "C09"
RULE = ("(combinator, ordered argument types, construction mode, options, input); inputs are type-directed for each argument "
        "(conforming / convertible / near-miss) or hostile; non-trivial = at least two arguments give different standalone outcomes "
        "(accept vs reject, or different converted values) on the input; distinct = hash of the case. One-shot iterators are not used "
        "as inputs (an argument's verdict must be repeatable).")
ASSUMPTIONS = [
    "standalone verdict of an argument = utype.type_transform(input, argument, same options) (the arguments themselves are judged by C01/C02)",
    "union acceptance compared with the lenient standalone verdicts (the stricter stages only restrict, C12)",
    "conformance of a union result = vf/tspec.py:conforms against an accepting argument",
    "algebra is asserted for the operator forms (~~T, T|T, T|Any, (A|B)|C ...) and for duplicates/Any in the constructor forms; "
    "the constructor forms do not promise flattening",
]
SHARDS = {"quick": 4, "thorough": 16}

D_SCHEMA = {"name": "LS", "base": "schema", "fields": [{"name": "a", "type": {"k": "leaf", "o": "int"}},
                                                        {"name": "b", "type": {"k": "leaf", "o": "str"}, "f": {"plain_default": {"v": ""}}}]}
D_DC = {"name": "LD", "base": "dataclass", "fields": [{"name": "a", "type": {"k": "leaf", "o": "int"}},
                                                       {"name": "c", "type": {"k": "leaf", "o": "float"}, "f": {"plain_default": {"v": {"t": "float", "v": "0.5"}}}}]}

# data classes that restrict themselves through options of their own: inside a combinator they stay as restricted as alone
D_NEC = {"name": "LN", "base": "schema", "options": {"no_explicit_cast": True}, "fields": [{"name": "a", "type": {"k": "leaf", "o": "int"}}]}
D_MAXP = {"name": "LM", "base": "schema", "options": {"max_params": 1}, "fields": [{"name": "a", "type": {"k": "leaf", "o": "int"}},
                                                                                     {"name": "b", "type": {"k": "leaf", "o": "str"}, "f": {"plain_default": {"v": ""}}}]}

LEAVES = [
    {"k": "leaf", "o": "int"}, {"k": "leaf", "o": "int"}, {"k": "leaf", "o": "float"}, {"k": "leaf", "o": "str"}, {"k": "leaf", "o": "str"},
    {"k": "leaf", "o": "bool"}, {"k": "leaf", "o": "none"}, {"k": "leaf", "o": "none"}, {"k": "leaf", "o": "bytes"}, {"k": "leaf", "o": "decimal"},
    {"k": "leaf", "o": "date"}, {"k": "leaf", "o": "list"}, {"k": "leaf", "o": "dict"}, {"k": "leaf", "o": "datetime"}, {"k": "leaf", "o": "time"},
    {"k": "con", "o": "int", "c": {"gt": 0}, "m": "class"}, {"k": "con", "o": "int", "c": {"lt": 0}, "m": "class"},
    {"k": "con", "o": "str", "c": {"regex": r"\d+"}, "m": "class"}, {"k": "con", "o": "str", "c": {"regex": r"[\d.]+"}, "m": "class"},
    {"k": "con", "o": "str", "c": {"max_length": 1}, "m": "class"}, {"k": "con", "o": "float", "c": {"ge": 0}, "m": "class"},
    {"k": "list", "a": {"k": "leaf", "o": "int"}}, {"k": "list", "a": {"k": "leaf", "o": "str"}}, {"k": "set", "a": {"k": "leaf", "o": "int"}},
    {"k": "tuplev", "a": {"k": "leaf", "o": "int"}}, {"k": "dict", "key": {"k": "leaf", "o": "str"}, "val": {"k": "leaf", "o": "int"}},
    {"k": "lit", "v": [1, "a"]}, {"k": "lit", "v": [None]}, {"k": "lit", "v": [True]},
    {"k": "enum", "e": "Num"}, {"k": "enum", "e": "Color"}, {"k": "enum", "e": "Plain"},
    {"k": "data", "d": D_SCHEMA}, {"k": "data", "d": D_DC}, {"k": "data", "d": D_NEC}, {"k": "data", "d": D_MAXP},
    # rules whose only check is `contains` (no keyword constraint, no item type): a value of their origin type is NOT yet a value of the rule
    {"k": "con", "o": "list", "c": {}, "contains": {"k": "leaf", "o": "int"}, "m": "class"},
    {"k": "con", "o": "list", "c": {}, "contains": {"k": "con", "o": "int", "c": {"gt": 0}}, "min_contains": 2, "m": "annotate"},
]
COMB = {"union": "|", "xor": "^", "and": "&", "not": "~"}
OPF = {"union": operator.or_, "xor": operator.xor, "and": operator.and_}

# inputs that several builtin converters reject with something other than TypeError/ValueError (AttributeError from the
# date/time converters on containers, SyntaxError from the container converters on bracketed text that is no literal)
ODD_REJECTS = [codec.encode(v) for v in ([], [1], ["1", 2], {}, {"a": "1"}, {"a": 1, "b": "x"}, (1, 2), "[1 2]", "{1:", "(1,", "[1, 2", "{'a' 1}", b"[1 2]")]

OPTION_SETS = st.sampled_from([{}, {}, {}, {"no_explicit_cast": True}, {"no_data_loss": True}, {"collect_errors": True}])


def is_utype_operand(t):
    import utype
    from utype.parser.rule import LogicalType
    return isinstance(t, (LogicalType, utype.LogicalMeta))


def build_comb(comb, args, mode):
    """args: built types in the order to use.  -> (type, how) ; how says which construction was really used"""
    from utype.parser.rule import LogicalType, Rule
    if comb == "not":
        a = args[0]
        if mode == "op" and is_utype_operand(a):
            return ~a, "op"
        return LogicalType.not_of(a), "func"
    if mode == "typing" and comb == "union":
        return Rule.parse_annotation(typing.Union[tuple(args)]), "typing"
    if mode == "op":
        # the library's operators are only reached when the left operand is a utype type, or - for ^ and & - the right one
        ok = True
        t = args[0]
        for x in args[1:]:
            if is_utype_operand(t) or (comb != "union" and is_utype_operand(x)):
                t = OPF[comb](t, x)
            else:
                ok = False
                break
        if ok:
            return t, "op"
    f = {"union": LogicalType.any_of, "xor": LogicalType.one_of, "and": LogicalType.all_of}[comb]
    return f(*args), "func"


def _arg_verdict(o):
    """An argument "accepts" when it returns a value; any ordinary exception it raises is its rejection (several builtin
    converters reject with AttributeError/SyntaxError/KeyError rather than TypeError/ValueError, and the combinators
    isolate every Exception of an argument).  Hangs and interpreter-limit errors stay inconclusive."""
    o = oracle.reject_raw(o)
    if o[0] == "other" and isinstance(o[1], Exception) and not isinstance(o[1], (RecursionError, MemoryError)):
        return ("perr", o[1])
    return o


def standalone(T, x_spec, opts):
    import utype
    return _arg_verdict(oracle.outcome(utype.type_transform, codec.decode(x_spec), T, opts))


def run_top(T, x, opts):
    import utype
    from utype.parser.rule import LogicalType
    if isinstance(T, LogicalType) and T.combinator and opts is not None:
        return oracle.outcome(lambda: T(x, context=opts.make_context()))
    if isinstance(T, LogicalType) and T.combinator:
        return oracle.outcome(T, x)
    return oracle.outcome(utype.type_transform, x, T, opts)


def _address_text(v):
    """text made from the repr of an object without a value-based repr (str(deque([memoryview(b'')])) names a memory address):
    differs between two decodes of the same input, not comparable"""
    return isinstance(v, (str, bytes, bytearray)) and (" at 0x" in v if isinstance(v, str) else b" at 0x" in bytes(v))


def _same_out(a, b):
    if a[0] != b[0]:
        return False
    if a[0] == "ok":
        return oracle.equal(a[1], b[1]) or (_address_text(a[1]) and _address_text(b[1]))
    return True


def judge_case(case):
    from utype.parser.rule import LogicalType, Rule
    try:
        comb, specs, mode, vs, o = case["comb"], case["args"], case.get("mode", "func"), case["value"], case.get("options") or {}
    except (KeyError, TypeError):
        raise HarnessError("malformed case")
    if comb not in COMB or not isinstance(specs, list) or not specs or (comb != "not" and len(specs) < 2) or len(specs) > 4:
        raise HarnessError("bad combinator case")
    for s in specs:
        tspec.validate(s)
    if _one_shot_spec(vs):
        raise HarnessError("one-shot input")
    opts = entries.make_options(o)
    try:
        reg = {}
        built = [tspec.build(s, decl_builder=lambda d: _decl(d, reg)) for s in specs]
        T, how = build_comb(comb, built if comb != "not" else built[:1], mode)
    except HarnessError:
        raise
    except decl_errors():
        return {"status": "discarded", "fails": []}
    info = {"status": "ok", "how": how}
    fails = []
    try:
        fails += algebra(comb, built, T)
        if not (isinstance(T, LogicalType) and T.combinator == COMB[comb]):
            info["status"] = "collapsed"
            return dict(info, fails=fails)
        x = codec.decode(vs)
        top = run_top(T, x, opts)
        if top[0] == "hang":
            return dict(info, status="other", fails=fails)
        internal = None
        if top[0] == "other":
            # a combinator isolates the failures of its arguments: an exception escaping it counts as a rejection here
            # (and is reported with its own signature when the semantics say the input must be accepted)
            internal = oracle.other_sig(top[1])
            top = ("perr", top[1])
        # the operators flatten same-kind operands and drop duplicates: the arguments that count are the built type's own
        actual = list(T.args)
        if how in ("op", "func") and comb != "not":
            # ... but they must keep the written order of the operands
            want = []
            for t in built:
                parts = list(t.args) if (how == "op" and isinstance(t, LogicalType) and t.combinator == COMB[comb]) else [t]
                for q in parts:
                    if not any(q is w or q == w for w in want):
                        want.append(q)
            if len(want) != len(actual) or any(a is not w and a != w for a, w in zip(actual, want)):
                fails.append((f"construction/{how}-does-not-keep-the-written-operand-order/{comb}",
                              {"written": [repr(t) for t in want], "built": [repr(t) for t in actual]}))
        aligned = len(actual) == len(built if comb != "not" else built[:1]) and all(a is b for a, b in zip(actual, built))
        if not aligned:
            info["flattened_or_deduplicated"] = True
        built = actual
        aspecs = specs if aligned else None
        accs = [standalone(t, vs, opts) for t in built]
        if any(a[0] in ("other", "hang") for a in accs):
            return dict(info, status="other", fails=fails)
        n_ok = sum(1 for a in accs if a[0] == "ok")
        info["n_accepting"] = n_ok
        info["odd_rejection"] = any(a[0] == "perr" and not isinstance(a[1], (TypeError, ValueError, ArithmeticError)) for a in accs)
        info["distinct_outcomes"] = len({("ok", codec.canon_value(a[1])) if a[0] == "ok" else ("perr",) for a in accs}) if len(accs) > 1 else 1
        det = {"accepting": [i for i, a in enumerate(accs) if a[0] == "ok"], "how": how,
               "top": "accepted" if top[0] == "ok" else "rejected",
               "result": codec.encode(top[1]) if top[0] == "ok" else str(top[1])[:160]}
        nonmono = any(tspec.has_kind(s_, ("not", "xor")) for s_ in specs)   # arguments whose verdict is not monotone in the conversion flags
        det["nonmonotone_args"] = nonmono
        if comb == "union":
            exact = [t for t in built if isinstance(t, type) and type(x) is t]
            if exact:
                if top[0] != "ok" or top[1] is not x:
                    fails.append(("union/exact-type-value-not-passed-unchanged", dict(det, exact=True)))
            elif (top[0] == "ok") != (n_ok > 0):
                kind = 'accepts-although-no-argument-accepts' if top[0] == 'ok' else 'rejects-although-an-argument-accepts'
                fails.append((f"union/{kind}{'/with-negated-or-xor-arguments' if nonmono else ''}{'/internal-error:' + internal if internal else ''}", det))
            elif top[0] == "ok":
                if aspecs is not None and not any((a[0] == "ok" or nonmono) and tspec.conforms(top[1], s) for a, s in zip(accs, aspecs)):
                    fails.append(("union/result-conforms-to-no-accepting-argument", det))
        elif comb == "xor":
            if (top[0] == "ok") != (n_ok == 1):
                kind = "accepts" if top[0] == "ok" else ("rejects" if not internal else "internal-error:" + internal + "/rejects")
                exact = any(isinstance(t, type) and type(x) is t for t in built)
                fails.append((f"xor/{kind}-with-{min(n_ok, 2)}{'+' if n_ok > 2 else ''}-accepting-arguments/{'input-has-exactly-an-argument-type' if exact else 'no-exact-type'}",
                              dict(det, exact=exact)))
            elif top[0] == "ok":
                i = det["accepting"][0]
                if not oracle.equal(top[1], accs[i][1]) and not (_address_text(top[1]) and _address_text(accs[i][1])):
                    fails.append(("xor/result-differs-from-the-accepting-argument", dict(det, expected=codec.encode(accs[i][1]))))
            # order independence: every permutation gives the same verdict (and value)
            if len(built) <= 3:
                for perm in itertools.permutations(range(len(built))):
                    if list(perm) == list(range(len(built))):
                        continue
                    Tp, _ = build_comb("xor", [built[i] for i in perm], "func")
                    if not (isinstance(Tp, LogicalType) and Tp.combinator == "^"):
                        continue
                    tp = run_top(Tp, codec.decode(vs), opts)
                    if tp[0] in ("other", "hang"):
                        continue
                    if not _same_out(top, tp):
                        fails.append(("xor/depends-on-argument-order", dict(det, permutation=list(perm),
                                                                           permuted="accepted" if tp[0] == "ok" else "rejected",
                                                                           permuted_result=codec.encode(tp[1]) if tp[0] == "ok" else str(tp[1])[:120])))
                        break
        elif comb == "not":
            if (top[0] == "ok") != (accs[0][0] != "ok"):
                fails.append((f"not/{'accepts-what-the-argument-accepts' if top[0] == 'ok' else 'rejects-what-the-argument-rejects'}", det))
            elif top[0] == "ok" and top[1] is not x:
                fails.append(("not/result-is-not-the-input", det))
        elif comb == "and":
            import utype
            cur = codec.decode(vs)
            failed = False
            for t in built:
                r = _arg_verdict(oracle.outcome(utype.type_transform, cur, t, opts))
                if r[0] != "ok":
                    failed = True
                    break
                cur = r[1]
            if (top[0] == "ok") == failed:
                fails.append((f"and/{'accepts-although-a-step-fails' if top[0] == 'ok' else 'rejects-although-every-step-succeeds'}", det))
            elif top[0] == "ok" and not oracle.equal(top[1], cur) and not (_address_text(top[1]) and _address_text(cur)):
                fails.append(("and/result-differs-from-the-left-fold", dict(det, fold=codec.encode(cur))))
        info["top"] = top[0]
        return dict(info, fails=fails)
    finally:
        dspec.cleanup()


def _decl(d, reg):
    key = d.get("name")
    if key not in reg:
        reg[key] = dspec.build_decl(d)
    return reg[key]


def _short(s):
    k = s["k"]
    if k in ("leaf", "con"):
        return s["o"] + ("*" if k == "con" else "")
    return k


def _one_shot_spec(vs):
    if isinstance(vs, dict):
        if vs.get("t") in ("iter", "gen"):
            return True
        v = vs.get("v")
        if isinstance(v, list):
            return any(_one_shot_spec(e) for e in v)
        if isinstance(v, dict):
            return _one_shot_spec(v)
    if isinstance(vs, list):
        return any(_one_shot_spec(e) for e in vs)
    return False


def algebra(comb, built, T):
    """construction laws that need no input"""
    from typing import Any
    from utype.parser.rule import LogicalType, Rule
    fails = []
    L = LogicalType
    f = {"union": L.any_of, "xor": L.one_of, "and": L.all_of}.get(comb)
    a0 = built[0]
    try:
        if is_utype_operand(a0) and not (isinstance(a0, L) and a0.combinator == "~"):
            if (~(~a0)) is not a0:
                fails.append(("algebra/double-negation-does-not-cancel", {"arg": repr(a0)}))
        if comb == "not":
            return fails
        if isinstance(T, L) and T.combinator == COMB[comb]:
            # building a larger type from T leaves T as it was (T2 = T | C must not turn T into T | C)
            before = tuple(T.args)
            for extra in (complex, bytearray):
                OPF[comb](T, extra)
                f(T, extra)
            if tuple(T.args) != before:
                fails.append((f"algebra/combining-changes-the-operand/{comb}", {"before": repr(before), "after": repr(tuple(T.args))}))
        dup = f(*(list(built) + [built[0]]))
        ref = f(*built)
        if _args(dup) != _args(ref):
            fails.append((f"algebra/duplicate-argument-not-absorbed/{comb}", {"args": repr(_args(dup))}))
        anyt = f(*(list(built) + [Any]))
        if comb in ("union", "xor"):
            if anyt is not Rule:
                fails.append((f"algebra/any-not-absorbing/{comb}", {"got": repr(anyt)}))
        elif _args(anyt) != _args(ref):
            fails.append(("algebra/any-not-neutral/and", {"got": repr(anyt)}))
        # operator forms flatten: (A op B) op C, A op (B op C) and f(A, B, C) have the same arguments
        same_kind = [isinstance(t, L) and t.combinator == COMB[comb] for t in built[:3]]
        if len(built) >= 3 and len(set(map(id, built[:3]))) == 3 and not any(same_kind):
            A, B, C = built[:3]
            ab = f(A, B)
            bc = f(B, C)
            flat = f(A, B, C)
            if isinstance(ab, L) and ab.combinator == COMB[comb] and isinstance(bc, L) and bc.combinator == COMB[comb] \
                    and isinstance(flat, L) and len(_args(flat)) == 3:
                left = OPF[comb](ab, C)
                if _args(left) != _args(flat):
                    fails.append((f"algebra/left-nesting-not-flattened/{comb}", {"got": repr(_args(left)), "want": repr(_args(flat))}))
                if is_utype_operand(A) or comb != "union":
                    right = OPF[comb](A, bc)
                    if _args(right) != _args(flat):
                        fails.append((f"algebra/right-nesting-not-flattened/{comb}", {"got": repr(_args(right)), "want": repr(_args(flat))}))
    except decl_errors():
        pass
    return fails


def _args(t):
    from utype.parser.rule import LogicalType
    if isinstance(t, LogicalType) and t.combinator:
        return tuple(t.args)
    return (t,)


def run_case(case):
    return judge_case(case)


def judge(case):
    return judge_case(case)["fails"]


def case_strategy(thorough):
    leaf = st.sampled_from(LEAVES)
    inner = st.one_of(
        st.tuples(st.sampled_from(["union", "xor"]), st.lists(leaf, min_size=2, max_size=2)).map(lambda t: {"k": t[0], "a": t[1], "m": "annotate"}),
        leaf.map(lambda a: {"k": "not", "a": a, "m": "annotate"}),
        st.tuples(leaf, leaf).map(lambda t: {"k": "and", "a": [t[0], {"k": "not", "a": t[1], "m": "annotate"}], "m": "annotate"}),
    )
    arg = st.one_of(leaf, leaf, leaf, leaf, inner)

    @st.composite
    def build(draw):
        comb = draw(st.sampled_from(["union", "union", "xor", "xor", "and", "not"]))
        if comb == "not":
            args = [draw(arg)]
        elif comb == "and":
            args = draw(st.lists(st.one_of(arg, leaf.map(lambda a: {"k": "not", "a": a, "m": "annotate"})), min_size=2, max_size=3))
        else:
            args = draw(st.lists(arg, min_size=2, max_size=4 if thorough else 3))
            args = draw(st.permutations(args))
        if comb in ("union", "xor") and draw(st.integers(0, 9)) == 0:
            # a date/time leaf (rejects containers with AttributeError) or a container leaf (rejects broken bracketed text with
            # SyntaxError) next to a leaf that accepts the same input
            odd = draw(st.sampled_from([{"k": "leaf", "o": "date"}, {"k": "leaf", "o": "datetime"}, {"k": "leaf", "o": "time"},
                                        {"k": "leaf", "o": "list"}, {"k": "leaf", "o": "dict"}, {"k": "list", "a": {"k": "leaf", "o": "int"}}]))
            other = draw(st.sampled_from([{"k": "list", "a": {"k": "leaf", "o": "int"}}, {"k": "leaf", "o": "list"}, {"k": "leaf", "o": "dict"},
                                          {"k": "dict", "key": {"k": "leaf", "o": "str"}, "val": {"k": "leaf", "o": "int"}},
                                          {"k": "data", "d": D_SCHEMA}, {"k": "leaf", "o": "bytes"}, {"k": "leaf", "o": "str"}]))
            args = draw(st.permutations([odd, other] + ([draw(leaf)] if draw(st.booleans()) else [])))
            return {"comb": comb, "args": list(args), "mode": draw(st.sampled_from(["func", "op", "typing"])),
                    "value": draw(st.sampled_from(ODD_REJECTS)), "options": draw(OPTION_SETS)}
        pool = []
        for a in args:
            pool.append(gen.conforming(a))
        vals = st.one_of(*pool, *pool, gen.hostile(max_leaves=5), st.sampled_from(ODD_REJECTS))
        v = draw(vals.filter(lambda s: not _one_shot_spec(s)))
        return {"comb": comb, "args": list(args), "mode": draw(st.sampled_from(["func", "op", "op", "typing"])),
                "value": v, "options": draw(OPTION_SETS)}
    return build()


def campaign(ctx):
    def body(case):
        r = judge_case(case)
        ctx.label(f"status_{r['status']}")
        ctx.label(f"comb_{case['comb']}")
        if r.get("how"):
            ctx.label(f"built_by_{r['how']}")
        if r["status"] == "ok":
            ctx.label(f"{case['comb']}_{r.get('top')}")
            if r.get("odd_rejection"):
                ctx.label("an_argument_rejects_with_an_unusual_exception")
            if r.get("distinct_outcomes", 1) > 1 or case["comb"] == "not":
                ctx.nt(case)
                ctx.sample(f"{case['comb']}-{r.get('top')}", case)
        ctx.fail_all(r["fails"], case)
    ctx.run_given(case_strategy(ctx.thorough), body, max_examples=ctx.n(1000, 12000))
    # a union that only accepts in its last, lenient stage (after the stricter stages left their errors behind), followed by another
    # argument of a conjunction / nested in another combinator: enumerated completely (seed independent)
    I, Li, S = {"k": "leaf", "o": "int"}, {"k": "list", "a": {"k": "leaf", "o": "int"}}, {"k": "leaf", "o": "str"}
    unions = [{"k": "union", "a": [I, Li], "m": "annotate"}, {"k": "opt", "a": I, "m": "annotate"}, {"k": "union", "a": [Li, I], "m": "annotate"}]
    seconds = [{"k": "not", "a": {"k": "con", "o": "int", "c": {"const": 0}, "m": "class"}, "m": "annotate"}, {"k": "con", "o": "int", "c": {"gt": 0}, "m": "class"},
               {"k": "union", "a": [I, S], "m": "annotate"}, {"k": "xor", "a": [I, {"k": "leaf", "o": "date"}], "m": "annotate"}]
    lossy = [{"t": "float", "v": "3.7"}, "3.7", {"t": "float", "v": "0.2"}, {"t": "list", "v": [{"t": "float", "v": "1.5"}]}, {"t": "decimal", "v": "2.5"}, "4", 4, True]
    idx = 0
    for u in unions:
        for sec in seconds:
            for comb, args in (("and", [u, sec]), ("and", [sec, u]), ("union", [u, sec]), ("xor", [u, S])):
                for v in lossy:
                    for mode in ("func", "op"):
                        idx += 1
                        if idx % ctx.nshards != ctx.shard:
                            continue
                        ctx.ev()
                        try:
                            body({"comb": comb, "args": list(args), "mode": mode, "value": v, "options": {}})
                        except HarnessError:
                            ctx.label("grid_case_refused")
    ctx.extra["staged_union_grid_exhaustive"] = True
    # data classes restricted by options of their own, beside every kind of partner, in both orders, every combinator, under the
    # caller's option sets - with inputs that break exactly the restriction: enumerated completely
    partners = [{"k": "leaf", "o": "none"}, {"k": "leaf", "o": "date"}, {"k": "leaf", "o": "int"}, {"k": "leaf", "o": "str"},
                {"k": "dict", "key": {"k": "leaf", "o": "str"}, "val": {"k": "leaf", "o": "int"}}, {"k": "data", "d": D_DC}]
    breaking = [{"t": "dict", "v": [["a", "1"]]}, {"t": "dict", "v": [["a", 1]]}, {"t": "dict", "v": [["a", 1], ["b", "x"]]}, {"t": "dict", "v": [["a", {"t": "float", "v": "2.0"}]]},
                {"t": "dict", "v": [["a", 1], ["b", "x"], ["c", 3]]}, {"t": "dict", "v": []}, '{"a": 1}']
    n = 0
    for d_ in (D_NEC, D_MAXP):
        for partner in partners:
            for comb in ("union", "xor"):
                for args in ([{"k": "data", "d": d_}, partner], [partner, {"k": "data", "d": d_}]):
                    for v in breaking:
                        for o in ({}, {"no_data_loss": True}, {"collect_errors": True}):
                            idx += 1
                            if idx % ctx.nshards != ctx.shard:
                                continue
                            ctx.ev()
                            n += 1
                            try:
                                body({"comb": comb, "args": list(args), "mode": "op", "value": v, "options": o})
                            except HarnessError:
                                ctx.label("grid_case_refused")
    ctx.extra["self_restricted_data_class_grid_cases_in_this_shard"] = n
