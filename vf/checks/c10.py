"""C10 - collecting errors changes reporting only, never the verdict or the value.

Generated: data classes (Schema / DataClass) and decorated functions over a pool of field types (scalars,
constrained, containers, unions, nested data class), required or defaulted, addition None/False; inputs in
which any subset of the top-level items is invalid (bad value, bad element deep inside, union with every
branch failing, missing required field, excess key); max_errors in {None, 1, 2, 3}.
Oracle (differential + independent set): run A fail-fast, run B collect_errors=True.
(1) A accepts <=> B accepts, equal values.  (2) B rejects with ONE CollectedParseError whose item set equals the
set of individually failing top-level items (field value rejected by the field type alone; required field
missing; key exceeding under addition=False).  (3) with max_errors=m: at most m errors, all of them failing
items (exactly the failing set when it is smaller than m).  (4) no item reported twice.
"""
from hypothesis import strategies as st

from .. import codec, dspec, entries, gen, oracle, tspec
from ..core import HarnessError
from .c01 import decl_errors

ID = "C10"
RULE = ("(declaration, input with an arbitrary subset of failing items, max_errors); non-trivial = at least two failing items, or a failing "
        "item next to a valid item that needs conversion; distinct = hash of the case")
ASSUMPTIONS = [
    "an item fails individually iff its field type alone (utype.type_transform, same conversion options) rejects the value, or the field is required and "
    "missing, or the key is unknown under addition=False",
    "reported item = the .item attribute of each error inside CollectedParseError.errors",
    "fail-fast error order is unspecified: run A's single error must name one of the failing items",
]
SHARDS = {"quick": 4, "thorough": 16}

INNER = {"name": "In", "base": "schema", "fields": [{"name": "p", "type": {"k": "leaf", "o": "int"}},
                                                    {"name": "q", "type": {"k": "con", "o": "str", "c": {"max_length": 2}}, "f": {"plain_default": {"v": ""}}}]}
TYPES = [
    {"k": "leaf", "o": "int"}, {"k": "leaf", "o": "int"}, {"k": "con", "o": "int", "c": {"gt": 0}}, {"k": "con", "o": "str", "c": {"max_length": 2}},
    {"k": "leaf", "o": "float"}, {"k": "leaf", "o": "date"}, {"k": "list", "a": {"k": "leaf", "o": "int"}},
    {"k": "dict", "key": {"k": "leaf", "o": "str"}, "val": {"k": "leaf", "o": "int"}},
    {"k": "union", "a": [{"k": "leaf", "o": "int"}, {"k": "list", "a": {"k": "leaf", "o": "int"}}], "m": "annotate"},
    {"k": "opt", "a": {"k": "con", "o": "int", "c": {"gt": 0}}, "m": "annotate"},
    {"k": "tuple", "a": [{"k": "leaf", "o": "int"}, {"k": "leaf", "o": "date"}]},
    {"k": "data", "d": INNER}, {"k": "list", "a": {"k": "data", "d": INNER}},
    {"k": "xor", "a": [{"k": "con", "o": "int", "c": {"gt": 0}}, {"k": "leaf", "o": "date"}], "m": "annotate"},
    # mappings whose KEYS convert (an unconvertible key is an error of the item like any other), sets, homogeneous tuples
    {"k": "dict", "key": {"k": "leaf", "o": "int"}, "val": {"k": "leaf", "o": "int"}},
    {"k": "dict", "key": {"k": "con", "o": "int", "c": {"gt": 0}}, "val": {"k": "leaf", "o": "str"}},
    {"k": "dict", "key": {"k": "leaf", "o": "date"}, "val": {"k": "list", "a": {"k": "leaf", "o": "int"}}},
    {"k": "set", "a": {"k": "leaf", "o": "int"}}, {"k": "tuplev", "a": {"k": "con", "o": "int", "c": {"gt": 0}}},
    {"k": "leaf", "o": "decimal"}, {"k": "leaf", "o": "timedelta"},
]
JUNK = st.sampled_from(["x", "abc", "", {"t": "obj"}, {"t": "list", "v": [1, "x"]}, {"t": "list", "v": ["a", "b"]}, {"t": "dict", "v": [["a", "x"]]},
                        {"t": "dict", "v": [["p", "x"]]}, {"t": "dict", "v": [["p", 1], ["q", "toolong"]]}, -5, 0, {"t": "float", "v": "nan"},
                        {"t": "list", "v": [{"t": "dict", "v": [["p", "x"]]}]}, {"t": "list", "v": [1, 2, "y", 4, "z"]}, "2020-13-45",
                        {"t": "dict", "v": [["abc", 1], ["2", 3]]}, {"t": "dict", "v": [["1", 1], ["-2", 3]]}, {"t": "dict", "v": [["2020-01-01", {"t": "list", "v": [1]}], ["zz", {"t": "list", "v": []}]]},
                        {"t": "dict", "v": [["1", "v"], ["k", "w"]]},
                        # refused with something other than TypeError / ValueError (OverflowError from int, InvalidOperation from Decimal)
                        "inf", {"t": "float", "v": "inf"}, "-Infinity", {"t": "list", "v": [1, "inf"]}])
DEFAULTS = {"int": 7, "str": "d", "float": {"t": "float", "v": "0.5"}}


def build(case, collect, max_errors=None):
    """-> (callable(input dict) -> plain result, names)"""
    import utype
    kind = case["kind"]
    fields = case["fields"]
    o = dict(case.get("options") or {})
    if collect:
        o["collect_errors"] = True
        if max_errors is not None:
            o["max_errors"] = max_errors
    opts = entries.make_options(o)
    reg = {}

    def T(spec):
        return tspec.build(spec, decl_builder=lambda d: reg.setdefault(d["name"], dspec.build_decl(d)))
    if kind in ("schema", "dataclass"):
        ann, ns = {}, {}
        for f in fields:
            ann[f["name"]] = T(f["type"])
            extra_kw = {"alias_from": list(f["alias_from"])} if f.get("alias_from") else {}
            if f.get("default"):
                ns[f["name"]] = utype.Field(default=None, **extra_kw) if f["default"] == "none" else utype.Field(default=7, **extra_kw)
            elif not f.get("required", True):
                ns[f["name"]] = utype.Field(required=False, **extra_kw)
            elif extra_kw:
                ns[f["name"]] = utype.Field(**extra_kw)
        ns["__annotations__"] = ann
        ns["__module__"] = "vf.dspec"
        ns["__qualname__"] = "C10D"
        if opts is not None:
            ns["__options__"] = opts
        cls = type("C10D", (utype.Schema if kind == "schema" else utype.DataClass,), ns)

        def run(data):
            inst = cls.__from__(data)
            return oracle.plain(inst)
        return run
    # function: positional-or-keyword params then keyword-only ones; called by keyword
    seen = {}
    lines, ann = [], {}
    params = []
    kwonly = False
    # required ones first (Python syntax), then defaulted
    ordered = [f for f in fields if not f.get("default") and f.get("required", True)] + \
              [f for f in fields if f.get("default") or not f.get("required", True)]
    for f in ordered:
        ann[f["name"]] = T(f["type"])
        if f.get("default") or not f.get("required", True):
            params.append(f"{f['name']}=None" if f.get("default") == "none" or not f.get("default") else f"{f['name']}=7")
        else:
            params.append(f["name"])
    npos = int(case.get("posonly") or 0)
    if npos:
        if npos > len(params):
            raise HarnessError("bad posonly count")
        params.insert(npos, "/")
    pos_names = [f["name"] for f in ordered[:npos]]
    if case.get("kwvar") is not None:
        params.append("**kw")
        if case["kwvar"] != "any":
            ann["kw"] = T(case["kwvar"])
    src = f"def fn({', '.join(params)}):\n    seen['v'] = dict(locals()); seen['v'].pop('seen', None)\n    return None\n"
    g = {"seen": seen}
    exec(src, g)
    fn = g["fn"]
    fn.__annotations__ = ann
    wrapped = utype.parse(fn, options=opts, ignore_result=True)

    def run(data):
        seen.clear()
        data = dict(data)
        args = []
        for n in pos_names:         # positional-only parameters are passed by position: a prefix of them
            if n not in data:
                break
            args.append(data.pop(n))
        if any(n in data for n in pos_names):
            raise HarnessError("a positional-only parameter after a missing one cannot be passed")
        wrapped(*args, **data)
        return oracle.plain(dict(seen.get("v") or {}))
    return run


def _item(x):
    i = getattr(x, "item", None)
    if isinstance(i, str) and i.startswith("**kw:"):
        return i[5:]     # keyword collected by **kw is reported as '**kw:<key>'
    return i


def error_items(e):
    from utype.utils.exceptions import CollectedParseError
    if isinstance(e, CollectedParseError):
        return [(type(x).__name__, _item(x)) for x in e.errors]
    return [(type(e).__name__, _item(e))]


def failing_items(case):
    """independent: which top-level items fail on their own"""
    import utype
    o = dict(case.get("options") or {})
    addition = o.get("addition")
    conv_opts = entries.make_options({k: v for k, v in o.items() if k in ("no_explicit_cast", "no_data_loss", "addition")})   # addition also governs extra tuple items / nested keys
    reg = {}
    if case["kind"] == "func" and case.get("kwvar") is not None:
        # a function with **kw: T parses with Options(addition=T): that option also governs extra items of tuple-typed parameters
        kw_t = True if case["kwvar"] == "any" else tspec.build(case["kwvar"], decl_builder=lambda d: reg.setdefault(d["name"], dspec.build_decl(d)))
        conv_opts = utype.Options(addition=kw_t, **{k: v for k, v in o.items() if k in ("no_explicit_cast", "no_data_loss")})
    inp = {k: v for k, v in case["input"]}
    failing, conv = set(), 0
    names = set()
    for f in case["fields"]:
        names.add(f["name"])
        given = [n for n in [f["name"]] + list(f.get("alias_from") or []) if n in inp]
        names.update(f.get("alias_from") or [])
        if len(given) > 1:
            vals = [codec.decode(inp[n]) for n in given]
            try:
                conflict = any(vals[0] != x for x in vals[1:])
            except Exception:
                return None, 0
            if conflict:
                failing.add(f["name"])      # one AliasConflictError for the field; none of its keys is an unknown key
                continue
        if given and given[0] != f["name"]:
            inp = dict(inp)
            inp[f["name"]] = inp[given[0]]
        if f["name"] in inp:
            Tt = tspec.build(f["type"], decl_builder=lambda d: reg.setdefault(d["name"], dspec.build_decl(d)))
            r = oracle.reject_raw(oracle.outcome(utype.type_transform, codec.decode(inp[f["name"]]), Tt, conv_opts))
            if r[0] == "perr":
                failing.add(f["name"])
            elif r[0] == "ok":
                if not oracle.equal(oracle.plain(r[1]), codec.decode(inp[f["name"]])):
                    conv += 1
            else:
                return None, 0
        elif f.get("required", True) and not f.get("default"):
            failing.add(f["name"])
    for k in inp:
        if k not in names and addition is False and case["kind"] != "func":
            failing.add(k)
        elif k not in names and case["kind"] == "func" and isinstance(case.get("kwvar"), dict):
            Tt = tspec.build(case["kwvar"], decl_builder=lambda d: reg.setdefault(d["name"], dspec.build_decl(d)))
            r = oracle.reject_raw(oracle.outcome(utype.type_transform, codec.decode(inp[k]), Tt, conv_opts))
            if r[0] == "perr":
                failing.add(k)
            elif r[0] != "ok":
                return None, 0
    return failing, conv


def run_case(case):
    try:
        kind, fields, inp = case["kind"], case["fields"], case["input"]
        me = case.get("max_errors")
    except (KeyError, TypeError):
        raise HarnessError("malformed case")
    if kind not in ("schema", "dataclass", "func") or not isinstance(fields, list) or not fields:
        raise HarnessError("bad case")
    seen = set()
    for f in fields:
        if not isinstance(f.get("name"), str) or not f["name"].isidentifier() or f["name"] in seen or f["name"] in ("seen", "fn"):
            raise HarnessError("bad field name")
        seen.add(f["name"])
        tspec.validate(f["type"])
    keys = [k for k, _ in inp]
    if len(set(keys)) != len(keys) or not all(isinstance(k, str) and k.isidentifier() for k in keys):
        raise HarnessError("bad input keys")
    if kind == "func" and case.get("kwvar") is None and any(k not in seen for k in keys):
        raise HarnessError("function cases without **kw take declared names only")
    if "kw" in seen or "kw" in keys:
        raise HarnessError("reserved name")
    if isinstance(case.get("kwvar"), dict):
        tspec.validate(case["kwvar"])
    from .c09 import _one_shot_spec
    if _one_shot_spec(inp):
        raise HarnessError("one-shot value")
    try:
        try:
            A = build(case, collect=False)
            B = build(case, collect=True, max_errors=me)
            Bfull = build(case, collect=True) if me is not None else B
        except HarnessError:
            raise
        except decl_errors():
            return {"status": "discarded", "fails": []}
        failing, conv = failing_items(case)
        if failing is None:
            return {"status": "other", "fails": []}
        data = lambda: {k: codec.decode(v) for k, v in inp}
        a = oracle.outcome(A, data())
        b = oracle.outcome(B, data())
        if a[0] in ("other", "hang") or b[0] in ("other", "hang"):
            return {"status": "other", "fails": []}
        fails = []
        det = {"failing": sorted(failing), "max_errors": me, "fail_fast": "accepted" if a[0] == "ok" else str(error_items(a[1])),
               "collecting": "accepted" if b[0] == "ok" else str(error_items(b[1]))}
        if (a[0] == "ok") != (b[0] == "ok"):
            fails.append((f"verdict-differs/{'only-collecting-accepts' if b[0] == 'ok' else 'only-fail-fast-accepts'}/{kind}", det))
        elif a[0] == "ok":
            if not oracle.equal(a[1], b[1]):
                fails.append((f"value-differs/{kind}", dict(det, a=oracle.short(a[1]), b=oracle.short(b[1]))))
            if failing:
                fails.append((f"accepted-although-an-item-fails-alone/{kind}", det))
        else:
            from utype.utils.exceptions import CollectedParseError
            if not failing:
                fails.append((f"rejected-although-no-item-fails-alone/{kind}", det))
            else:
                fa = error_items(a[1])
                if not isinstance(a[1], CollectedParseError) and fa[0][1] not in failing:
                    fails.append((f"fail-fast-names-a-valid-item/{kind}/{fa[0][0]}", det))
                if not isinstance(b[1], CollectedParseError):
                    fails.append((f"collecting-raises-a-bare-error/{kind}/{type(b[1]).__name__}", det))
                else:
                    items = [i for _, i in error_items(b[1])]
                    if len(set(map(repr, items))) != len(items):
                        fails.append((f"item-reported-twice/{kind}", det))
                    rep = set(i for i in items if isinstance(i, str))
                    odd = [i for i in items if not isinstance(i, str)]
                    if odd or not rep <= failing:
                        fails.append((f"valid-item-reported/{kind}", dict(det, extra=sorted(map(repr, (rep - failing) | set(map(repr, odd)))))))
                    elif me is None and rep != failing:
                        fails.append((f"failing-item-not-reported/{kind}", dict(det, missing=sorted(failing - rep))))
                    elif me is not None:
                        if len(items) > me:
                            fails.append((f"more-errors-than-max_errors/{kind}", det))
                        elif len(failing) < me and rep != failing:
                            fails.append((f"failing-item-not-reported/{kind}/below-max_errors", dict(det, missing=sorted(failing - rep))))
                        elif len(failing) >= me and len(items) != me:
                            fails.append((f"fewer-errors-than-max_errors-although-enough-items-fail/{kind}", det))
        return {"status": "accepted" if a[0] == "ok" else "rejected", "fails": fails, "n_failing": len(failing), "converted": conv}
    finally:
        dspec.cleanup()


def judge(case):
    return run_case(case)["fails"]


@st.composite
def cases(draw):
    kind = draw(st.sampled_from(["schema", "schema", "dataclass", "func"]))
    n = draw(st.integers(2, 5))
    fields = []
    for i in range(n):
        t = draw(st.sampled_from(TYPES))
        f = {"name": f"f{i}", "type": t}
        how = draw(st.sampled_from(["required", "required", "default", "optional"]))
        if how == "default":
            f["default"] = "seven" if t.get("o") == "int" and t["k"] in ("leaf",) else "none"
        elif how == "optional" and kind != "func":
            f["required"] = False
        fields.append(f)
    o = {}
    if kind != "func":
        a = draw(st.sampled_from([None, None, False]))
        if a is False:
            o["addition"] = False
    extra = draw(st.sampled_from([{}, {}, {"no_explicit_cast": True}, {"no_data_loss": True}]))
    if "no_data_loss" in extra and kind != "func":
        o["addition"] = False   # implied by the library
    o.update(extra)
    inp = []
    posonly = 0
    if kind == "func" and draw(st.booleans()):
        # the first parameters (in the order of the signature: required ones first) are positional-only
        fields.sort(key=lambda f: bool(f.get("default") or not f.get("required", True)))
        posonly = draw(st.integers(1, len(fields)))
    gap = False
    for i, f in enumerate(fields):
        if kind != "func" and draw(st.integers(0, 3)) == 0:
            f["alias_from"] = [f["name"] + "_alt"]
        how = draw(st.sampled_from(["good", "good", "bad", "bad", "missing"] + (["conflict", "conflict", "alias"] if f.get("alias_from") else [])))
        if i < posonly and gap:
            how = "missing"       # nothing can be passed by position after a missing positional-only parameter
        if how == "missing":
            gap = gap or i < posonly
            continue
        v = draw(gen.conforming(f["type"]) if how in ("good", "conflict", "alias") else st.one_of(JUNK, JUNK, gen.conforming(f["type"])))
        if how == "alias":
            inp.append([f["alias_from"][0], v])
            continue
        inp.append([f["name"], v])
        if how == "conflict":
            # the same field under a second accepted name with another value: ONE failing item (the field), no unknown key
            inp.append([f["alias_from"][0], draw(st.sampled_from(["other", -77, {"t": "list", "v": ["zz"]}]))])
    kwvar = None
    if kind == "func" and draw(st.booleans()):
        kwvar = draw(st.sampled_from(["any", TYPES[0], TYPES[2], TYPES[3], TYPES[6]]))
    if kind != "func" or kwvar is not None:
        for _ in range(draw(st.sampled_from([0, 0, 1, 2, 3]))):
            k = draw(st.sampled_from(["x1", "x2", "zz"]))
            if all(k != p[0] for p in inp):
                inp.append([k, draw(st.sampled_from([1, "v", None, "7", {"t": "list", "v": ["q"]}]))])
    case = {"kind": kind, "fields": fields, "input": inp, "max_errors": draw(st.sampled_from([None, None, 1, 2, 3]))}
    if o:
        case["options"] = o
    if kwvar is not None:
        case["kwvar"] = kwvar
    if posonly:
        case["posonly"] = posonly
    return case


def campaign(ctx):
    from .c09 import _one_shot_spec

    def body(case):
        if _one_shot_spec(case["input"]):
            ctx.label("skipped_one_shot")
            return
        r = run_case(case)
        ctx.label(f"status_{r['status']}")
        ctx.label(f"kind_{case['kind']}")
        if case.get("posonly"):
            ctx.label("positional_only_parameters")
        if r["status"] in ("accepted", "rejected"):
            ctx.label(f"failing_items_{min(r['n_failing'], 4)}")
            ctx.label(f"max_errors_{case.get('max_errors')}")
            if any(f.get("alias_from") and sum(1 for k, _ in case["input"] if k in [f["name"]] + f["alias_from"]) > 1 for f in case["fields"]):
                ctx.label("field_given_under_two_names")
            if r["n_failing"] >= 2 or (r["n_failing"] == 1 and r["converted"]):
                ctx.nt(case)
                ctx.sample(f"{case['kind']}-{r['status']}", case)
        ctx.fail_all(r["fails"], case)
    ctx.run_given(cases(), body, max_examples=ctx.n(1200, 15000))
