"""C11 - exclude/preserve policies touch only the offending elements.

Generated: container types (List/Set/FrozenSet/Tuple[T, ...]/Dict[K, V], one nesting level), data classes with
per-field on_error and a typed addition, functions with *args: T / **kwargs: T; inputs given as element lists in
which each element is independently valid, convertible or invalid; all 27 (invalid_items, invalid_keys,
invalid_values) triples.
Oracle (metamorphic): an element "offends" iff the element type alone rejects it under 'throw'.
exclude  == strict ('throw') parse of the input with exactly the offenders removed;
preserve == that result with the offenders put back unchanged at their positions;
throw    == rejected iff there is an offender.  A required field is never excluded (the call raises).
"""
from hypothesis import strategies as st

from .. import codec, dspec, entries, gen, oracle, tspec
from ..core import HarnessError
from .c01 import decl_errors

ID = "C11"
RULE = ("(container / data class / function, element list with independently established offenders, policy triple); non-trivial = at "
        "least one offender and at least one non-offender that needs conversion under a non-throw policy; distinct = hash of the case")
ASSUMPTIONS = [
    "offender = the element type alone (utype.type_transform under default options) rejects the element; the conversion of elements is judged by C01/C02, "
    "this check judges what the policies do with them",
    "sets are compared as sets; an unhashable offender preserved into a set is not asserted",
    "fixed-length tuples: only 'preserve' is asserted (positions have no 'exclude' meaning)",
]
SHARDS = {"quick": 4, "thorough": 16}
POLICIES = ["throw", "exclude", "preserve"]

ELEM_TYPES = [
    {"k": "leaf", "o": "int"}, {"k": "leaf", "o": "int"}, {"k": "con", "o": "int", "c": {"gt": 0}}, {"k": "con", "o": "str", "c": {"max_length": 2}},
    {"k": "leaf", "o": "float"}, {"k": "leaf", "o": "date"}, {"k": "leaf", "o": "bool"}, {"k": "enum", "e": "Num"},
    {"k": "con", "o": "str", "c": {"regex": r"\d+"}}, {"k": "leaf", "o": "uuid"},
    {"k": "leaf", "o": "decimal"}, {"k": "leaf", "o": "timedelta"}, {"k": "con", "o": "decimal", "c": {"ge": 0}},
]
KEY_TYPES = [{"k": "leaf", "o": "int"}, {"k": "con", "o": "str", "c": {"max_length": 2}}, {"k": "con", "o": "int", "c": {"gt": 0}},
             {"k": "leaf", "o": "date"}, {"k": "enum", "e": "Num"}]
NESTED = [{"k": "list", "a": {"k": "leaf", "o": "int"}}, {"k": "dict", "key": {"k": "leaf", "o": "str"}, "val": {"k": "leaf", "o": "int"}}]

ELEMS = st.one_of(
    st.integers(-3, 12), st.integers(-3, 12).map(str), st.sampled_from(["abc", "x", "", "1.5", "2020-01-02", "yes", "12345678-1234-5678-1234-567812345678", "ab", "*"]),
    st.sampled_from([None, True, False, {"t": "float", "v": "1.0"}, {"t": "float", "v": "2.5"}, {"t": "float", "v": "nan"}, {"t": "obj"},
                     {"t": "list", "v": [1]}, {"t": "list", "v": ["x"]}, {"t": "list", "v": [1, 2]}, {"t": "dict", "v": [["a", 1]]}, {"t": "dict", "v": [["a", "x"]]},
                     {"t": "bytes", "v": "31"}, {"t": "date", "v": "2020-01-02"}]),
    # offenders whose conversion fails with an arithmetic error rather than TypeError/ValueError (OverflowError, decimal.InvalidOperation)
    st.sampled_from(["inf", "-inf", "1.2.3", "1e400", {"t": "float", "v": "inf"}, {"t": "float", "v": "-inf"}, {"t": "float", "v": "1e300"},
                     {"t": "int", "v": "1" + "0" * 400}, {"t": "decimal", "v": "Infinity"}, {"t": "decimal", "v": "sNaN"}]))
HELEMS = st.one_of(st.integers(-3, 12), st.integers(-3, 12).map(str),
                   st.sampled_from(["abc", "x", "", "1.5", "2020-01-02", "ab", "*", None, True, {"t": "float", "v": "1.0"}, {"t": "float", "v": "2.5"},
                                    {"t": "bytes", "v": "31"}, {"t": "date", "v": "2020-01-02"}]))


def alone(T, vs, pol=None):
    """standalone verdict of one element; nested containers follow the same policies"""
    import utype
    r = oracle.outcome(utype.type_transform, codec.decode(vs), T, _opts(pol or {}))
    if r[0] == "other" and isinstance(r[1], (TypeError, ValueError, ArithmeticError)):
        return ("perr", r[1])   # type_transform on a bare builtin raises the converter's own TypeError/ValueError
    return r


def _opts(pol):
    return entries.make_options({k: v for k, v in pol.items() if v != "throw"})


def _policy(pol, key):
    return pol.get(key, "throw")


class Skip(Exception):
    pass


# -- expectations --------------------------------------------------------------------------------------

def expect_seq(kind, T, elems, pol):
    """-> ('ok', value) | ('reject',)"""
    p = _policy(pol, "invalid_items")
    out = []
    offenders = conv = 0
    for e in elems:
        r = alone(T, e, pol)
        if r[0] == "ok":
            out.append(r[1])
            if not oracle.equal(r[1], codec.decode(e)):
                conv += 1
        elif r[0] == "perr":
            offenders += 1
            if p == "throw":
                return ("reject",), offenders, conv
            if p == "preserve":
                out.append(codec.decode(e))
        else:
            raise Skip()
    origin = {"list": list, "set": set, "frozenset": frozenset, "tuplev": tuple}[kind]
    try:
        return ("ok", origin(out)), offenders, conv
    except TypeError:
        raise Skip()


def expect_map(K, V, pairs, pol):
    pk, pv = _policy(pol, "invalid_keys"), _policy(pol, "invalid_values")
    out = {}
    offenders = conv = 0
    for k, v in pairs:
        rk = alone(K, k, pol)
        if rk[0] == "ok":
            key = rk[1]
            if not oracle.equal(key, codec.decode(k)):
                conv += 1
        elif rk[0] == "perr":
            offenders += 1
            if pk == "throw":
                return ("reject",), offenders, conv
            if pk == "exclude":
                continue
            key = codec.decode(k)
        else:
            raise Skip()
        rv = alone(V, v, pol)
        if rv[0] == "ok":
            val = rv[1]
            if not oracle.equal(val, codec.decode(v)):
                conv += 1
        elif rv[0] == "perr":
            offenders += 1
            if pv == "throw":
                return ("reject",), offenders, conv
            if pv == "exclude":
                continue
            val = codec.decode(v)
        else:
            raise Skip()
        try:
            out[key] = val
        except TypeError:
            raise Skip()
    return ("ok", out), offenders, conv


# -- parts ----------------------------------------------------------------------------------------------

def _wrapped(C, wrap):
    """the container type as it is usually declared: alone, Optional[...], or next to another member of a union (the policies
    must act on the elements in the same way: the union only chooses the member)"""
    import typing
    from utype.parser.rule import Rule
    if not wrap:
        return C
    if wrap == "opt":
        return Rule.parse_annotation(typing.Optional[C])
    if wrap == "union_none_first":
        return Rule.parse_annotation(typing.Union[None, C])
    # (a second member that could take the input itself - Union[C, bytes] - would make the choice of the member part of the outcome: C09's subject)
    raise HarnessError("bad wrap")


def run_seq(case):
    from utype.parser.rule import Rule
    kind, tsp, elems, pol, src = case["kind"], case["elem"], case["elems"], case.get("policy") or {}, case.get("src", "list")
    tspec.validate(tsp)
    T = tspec.build(tsp)
    C = _wrapped(tspec.build({"k": kind, "a": tsp, "m": case.get("m", "annotate")}), case.get("wrap"))
    # (a set type parses every item of an array source and builds the set from the results, like a list type does)
    elems_eff = elems
    exp, off, conv = expect_seq(kind, T, elems_eff, pol)
    import utype
    x = codec.decode({"t": src, "v": elems})
    got = oracle.outcome(utype.type_transform, x, C, _opts(pol))
    return exp, got, off, conv, f"{kind}/{_policy(pol, 'invalid_items')}{'/in-a-union' if case.get('wrap') else ''}"


def run_map(case):
    import utype
    ksp, vsp, pairs, pol = case["key"], case["val"], case["pairs"], case.get("policy") or {}
    tspec.validate(ksp), tspec.validate(vsp)
    K, V = tspec.build(ksp), tspec.build(vsp)
    C = _wrapped(tspec.build({"k": "dict", "key": ksp, "val": vsp, "m": case.get("m", "annotate")}), case.get("wrap"))
    # duplicate raw keys cannot exist in a dict input: keep the last
    seen = {}
    for k, v in pairs:
        try:
            seen[codec.decode(k)] = (k, v)
        except TypeError:
            raise HarnessError("unhashable key")
    pairs = list(seen.values())
    exp, off, conv = expect_map(K, V, pairs, pol)
    x = {codec.decode(k): codec.decode(v) for k, v in pairs}
    got = oracle.outcome(utype.type_transform, x, C, _opts(pol))
    return exp, got, off, conv, f"dict/keys:{_policy(pol, 'invalid_keys')}/values:{_policy(pol, 'invalid_values')}{'/in-a-union' if case.get('wrap') else ''}"


FIELD_T = {"a": {"k": "leaf", "o": "int"}, "b": {"k": "con", "o": "int", "c": {"gt": 0}}, "c": {"k": "con", "o": "str", "c": {"max_length": 2}},
           "d": {"k": "list", "a": {"k": "leaf", "o": "int"}}}


def build_data(case, strict):
    import utype
    fields = case["fields"]   # name -> {"on_error":..., "required": bool, "default": bool}
    pol = case.get("policy") or {}
    ann, ns = {}, {}
    for name, f in fields.items():
        ann[name] = tspec.build(FIELD_T[name])
        kw = {}
        if not strict and f.get("on_error"):
            kw["on_error"] = f["on_error"]
        if f.get("default"):
            kw["default"] = {"a": 7, "b": 1, "c": "dd", "d": None}[name]
            if name == "d":
                kw.pop("default")
                kw["default_factory"] = list
        elif not f.get("required", True):
            kw["required"] = False
        if kw:
            ns[name] = utype.Field(**kw)
    ns["__annotations__"] = ann
    ns["__module__"] = "vf.dspec"
    ns["__qualname__"] = "P11"
    o = {}
    if case.get("addition"):
        o["addition"] = int if case["addition"] == "int" else True
    # the strict reference keeps the policies of nested containers (items/keys); it drops the field-level ones
    o.update({k: v for k, v in pol.items() if v != "throw" and (not strict or k != "invalid_values")})
    if o:
        ns["__options__"] = utype.Options(**o)
    return type("P11", (utype.Schema,), ns)


def run_data(case):
    fields, inp, pol = case["fields"], case["input"], case.get("policy") or {}
    for name in fields:
        if name not in FIELD_T:
            raise HarnessError("bad field")
    S = build_data(case, strict=False)
    R = build_data(case, strict=True)
    pv = _policy(pol, "invalid_values")
    reduced = {}
    preserved = {}
    offenders = conv = 0
    reject = False
    for k, v in inp:
        if not isinstance(k, str):
            raise HarnessError("bad key")
        if k in fields:
            T = tspec.build(FIELD_T[k])
            # nested containers of a field follow the item/key/value policies themselves: judge the field level only
            r = alone(T, v, {kk: vv for kk, vv in pol.items() if kk != "invalid_values"} if k == "d" else None)
            p = fields[k].get("on_error") or pv
            required = fields[k].get("required", True) and not fields[k].get("default")
        elif case.get("addition") == "int":
            r = alone(int, v)
            p = pv
            required = False
        else:
            reduced[k] = codec.decode(v)
            continue
        if r[0] == "ok":
            reduced[k] = codec.decode(v)
            if not oracle.equal(r[1], codec.decode(v)):
                conv += 1
        elif r[0] == "perr":
            offenders += 1
            if p == "throw" or (p == "exclude" and required):
                reject = True
            elif p == "preserve":
                preserved[k] = codec.decode(v)
                if k in fields:
                    # stands in for the offender in the strict run (a required field must be present); overwritten below
                    reduced[k] = {"a": 1, "b": 1, "c": "x", "d": []}[k]
        else:
            raise Skip()
    x = {k: codec.decode(v) for k, v in inp}
    got = oracle.outcome(S.__from__, x)
    base = oracle.outcome(R.__from__, reduced)
    if base[0] not in ("ok", "perr"):
        raise Skip()
    if reject or base[0] == "perr":
        exp = ("reject",)
    else:
        d = dict(base[1])
        d.update(preserved)
        exp = ("ok", d)
    if got[0] == "ok":
        got = ("ok", dict(got[1]))
    return exp, got, offenders, conv, f"data/values:{pv}/on_error:{'+'.join(sorted({f.get('on_error') or '-' for f in fields.values()}))}"


def run_func(case):
    import utype
    tsp, args, kwargs, pol = case["elem"], case["args"], case["kwargs"], case.get("policy") or {}
    tspec.validate(tsp)
    T = tspec.build(tsp)
    seen = {}

    def f(first: int, *rest: T, **kw: T):
        seen["v"] = (first, rest, kw)
        return None
    g = utype.parse(f, options=_opts(pol), ignore_result=True)
    pi, pv = _policy(pol, "invalid_items"), _policy(pol, "invalid_values")
    exp_rest, exp_kw = [], {}
    offenders = conv = 0
    reject = False
    for e in args:
        r = alone(T, e, pol)
        if r[0] == "ok":
            exp_rest.append(r[1])
            conv += not oracle.equal(r[1], codec.decode(e))
        elif r[0] == "perr":
            offenders += 1
            if pi == "throw":
                reject = True
            elif pi == "preserve":
                exp_rest.append(codec.decode(e))
        else:
            raise Skip()
    for k, v in kwargs:
        if not isinstance(k, str) or not k.isidentifier() or k in ("first", "rest", "kw"):
            raise HarnessError("bad kwarg name")
        r = alone(T, v, pol)
        if r[0] == "ok":
            exp_kw[k] = r[1]
            conv += not oracle.equal(r[1], codec.decode(v))
        elif r[0] == "perr":
            offenders += 1
            if pv == "throw":
                reject = True
            elif pv == "preserve":
                exp_kw[k] = codec.decode(v)
        else:
            raise Skip()
    seen.clear()
    got = oracle.outcome(lambda: g(1, *[codec.decode(e) for e in args], **{k: codec.decode(v) for k, v in kwargs}))
    if got[0] == "ok":
        if "v" not in seen:
            raise Skip()
        got = ("ok", [list(seen["v"][1]), seen["v"][2]])
    exp = ("reject",) if reject else ("ok", [exp_rest, exp_kw])
    return exp, got, offenders, conv, f"func/items:{pi}/values:{pv}"


PARTS = {"seq": run_seq, "map": run_map, "data": run_data, "func": run_func}


def run_case(case):
    try:
        part = case["part"]
        fn = PARTS[part]
    except (KeyError, TypeError):
        raise HarnessError("malformed case")
    from .c09 import _one_shot_spec
    if _one_shot_spec(case):
        raise HarnessError("one-shot element")
    try:
        exp, got, off, conv, label = fn(case)
    except HarnessError:
        raise
    except Skip:
        return {"status": "skipped", "fails": []}
    except decl_errors():
        return {"status": "discarded", "fails": []}
    except (KeyError, TypeError, IndexError):
        raise HarnessError("malformed case")
    finally:
        dspec.cleanup()
    fails = []
    if got[0] == "other" and exp[0] == "ok" and off and isinstance(got[1], Exception) and not isinstance(got[1], (RecursionError, MemoryError)):
        # an offender the policy tolerates made the whole call fail with the converter's own exception (not even a ParseError)
        return {"status": "other", "offenders": off, "converted": conv,
                "fails": [(f"raises-{type(got[1]).__name__}-although-the-policy-tolerates-the-offenders/{label}",
                           {"offenders": off, "policy": case.get("policy") or {}, "expected": codec.encode(exp[1]), "got": f"{type(got[1]).__name__}: {str(got[1])[:160]}"})]}
    if got[0] in ("other", "hang"):
        return {"status": "other", "fails": [], "offenders": off, "converted": conv}
    det = {"offenders": off, "policy": case.get("policy") or {},
           "expected": codec.encode(exp[1]) if exp[0] == "ok" else "rejected",
           "got": codec.encode(got[1]) if got[0] == "ok" else f"rejected: {str(got[1])[:160]}"}
    if exp[0] == "reject" and got[0] == "ok":
        fails.append((f"accepted-although-an-offender-must-raise/{label}", det))
    elif exp[0] == "ok" and got[0] == "perr":
        fails.append((f"rejected-although-the-policy-tolerates-the-offenders/{label}" if off else f"rejected-without-offender/{label}", det))
    elif exp[0] == "ok" and not oracle.equal(exp[1], got[1]):
        fails.append((f"result-differs/{label}", det))
    return {"status": "accepted" if got[0] == "ok" else "rejected", "fails": fails, "offenders": off, "converted": conv}


def judge(case):
    return run_case(case)["fails"]


# -- strategies -----------------------------------------------------------------------------------------

_P = st.sampled_from(["throw", "exclude", "exclude", "preserve", "preserve"])
POLICY = st.fixed_dictionaries({"invalid_items": _P, "invalid_keys": _P, "invalid_values": _P}).map(
    lambda d: {k: v for k, v in d.items() if v != "throw"})
NAMES = ["x", "y", "z", "w1"]


def _one_shot(e):
    from .c09 import _one_shot_spec
    return _one_shot_spec(e)


def case_strategy():
    et = st.sampled_from(ELEM_TYPES)
    seq = st.fixed_dictionaries({
        "part": st.just("seq"), "wrap": st.sampled_from([None, None, "opt", "union_none_first"]), "kind": st.sampled_from(["list", "list", "set", "frozenset", "tuplev"]),
        "elem": st.one_of(et, et, et, st.sampled_from(NESTED)), "policy": POLICY, "m": st.sampled_from(["annotate", "typing"]),
        "src": st.sampled_from(["list", "list", "tuple"]),
    }).flatmap(lambda c: st.fixed_dictionaries({k: st.just(v) for k, v in c.items()} | {
        "elems": st.lists(st.one_of(gen.conforming(c["elem"]), gen.exact_values(c["elem"]), ELEMS).filter(
            lambda e: not _one_shot(e) and (c["kind"] in ("list", "tuplev") or gen._hashable_spec(e))), min_size=2, max_size=6)}))
    seq = seq.filter(lambda c: c["kind"] in ("list", "tuplev") or c["elem"]["k"] not in ("list", "dict"))
    mp = st.fixed_dictionaries({
        "part": st.just("map"), "wrap": st.sampled_from([None, None, "opt", "union_none_first"]), "key": st.sampled_from(KEY_TYPES), "val": st.one_of(et, et, st.sampled_from(NESTED)), "policy": POLICY,
        "m": st.sampled_from(["annotate", "typing"]),
    }).flatmap(lambda c: st.fixed_dictionaries({k: st.just(v) for k, v in c.items()} | {
        "pairs": st.lists(st.tuples(st.one_of(gen.conforming(c["key"]), gen.exact_values(c["key"]), gen.exact_values(c["key"]), HELEMS).filter(gen._hashable_spec),
                                    st.one_of(gen.conforming(c["val"]), gen.exact_values(c["val"]), gen.exact_values(c["val"]), ELEMS).filter(lambda e: not _one_shot(e))).map(list), min_size=2, max_size=5)}))
    fld = st.fixed_dictionaries({}, optional={"on_error": st.sampled_from(POLICIES), "required": st.booleans(), "default": st.booleans()})
    data = st.fixed_dictionaries({
        "part": st.just("data"),
        "fields": st.dictionaries(st.sampled_from(["a", "b", "c", "d"]), fld, min_size=1, max_size=4),
        "policy": POLICY, "addition": st.sampled_from([None, None, "int", True]),
    }).flatmap(lambda c: st.fixed_dictionaries({k: st.just(v) for k, v in c.items()} | {
        "input": st.lists(st.one_of(*[st.tuples(st.just(n), st.one_of(gen.conforming(FIELD_T[n]), ELEMS).filter(lambda e: not _one_shot(e))).map(list) for n in c["fields"]],
                                    st.tuples(st.sampled_from(["extra", "x9"]), st.sampled_from([1, "2", "zz", None, {"t": "list", "v": [1]}, "inf", {"t": "float", "v": "inf"}, {"t": "float", "v": "nan"}])).map(list)),
                          min_size=1, max_size=5, unique_by=lambda p: p[0])}))
    fn = st.fixed_dictionaries({"part": st.just("func"), "elem": et, "policy": POLICY}).flatmap(
        lambda c: st.fixed_dictionaries({k: st.just(v) for k, v in c.items()} | {
            "args": st.lists(st.one_of(gen.conforming(c["elem"]), ELEMS).filter(lambda e: not _one_shot(e)), min_size=1, max_size=4),
            "kwargs": st.lists(st.tuples(st.sampled_from(NAMES), st.one_of(gen.conforming(c["elem"]), ELEMS).filter(lambda e: not _one_shot(e))).map(list), max_size=3, unique_by=lambda p: p[0])}))
    return st.one_of(seq, seq, mp, mp, data, data, fn)


def campaign(ctx):
    def body(case):
        r = run_case(case)
        ctx.label(f"status_{r['status']}")
        ctx.label(f"part_{case['part']}")
        pol = case.get("policy") or {}
        ctx.label("policy_" + "/".join(pol.get(k, "throw")[0] for k in ("invalid_items", "invalid_keys", "invalid_values")))
        if r["status"] in ("accepted", "rejected"):
            if r["offenders"]:
                ctx.label("with_offender")
            if r["offenders"] and r["converted"] and r["status"] == "accepted":
                ctx.nt(case)
                ctx.sample(case["part"], case)
        ctx.fail_all(r["fails"], case)
    ctx.run_given(case_strategy(), body, max_examples=ctx.n(1500, 20000))
