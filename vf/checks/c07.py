"""C07 - data-class instances stay valid under every sequence of mutations.

Generated (model-based, history generation): a data class from a curated family (required, optional, constrained default,
aliased, immutable, case-insensitive with alias_from, no_output, on_error='exclude', constrained list, a dependent
@property) on the dict-based base (Schema) and on the attribute-based ones (DataClass, @utype.dataclass), class options
(addition None/True/int, ignore_delete_nonexistent, immutable), a valid initial input, then a history of operations:
setattr, delattr, item assignment / deletion, update (mapping and keywords), pop (with / without default), popitem,
setdefault, clear, in-place union, copy followed by mutations of the copy.  Arguments are valid, convertible, invalid
or of the wrong kind; names are attribute names, aliases, case variants and unknown keys.
Oracle: a reference model of what the documentation promises, and invariants checked after EVERY step:
(1) every present field conforms to its declared type and constraints (no sentinel, no raw value); (2) required fields
present; (3) immutable fields keep their initial value; (4) attribute view and key view agree (no_output fields are
attribute-only); (5) the dependent property equals its recomputation; (6) a single-key operation that raised left
the instance exactly as it was; (7) operations the documentation says are refused (immutable, required, invalid
value, absent key) are refused, valid ones are not; (8) mutating a copy never changes the original.
"""
import sys
import types

from hypothesis import strategies as st

from .. import codec, oracle
from ..core import HarnessError

ID = "C07"
RULE = ("(base, class options, initial input, history of up to 12 operations); non-trivial = at least 3 operations were applied (did not raise) including a "
        "deletion followed by a write, or a dict-inherited mutator (setdefault, popitem, |=, clear, copy), or a refused operation; distinct = hash of the case")
ASSUMPTIONS = [
    "update / |= / clear are multi-key: only the invariants (1)-(5) are asserted after them, not atomicity",
    "unknown keys under addition=True are kept raw by design (documented); under addition=int they must be ints; under addition=None they are ignored",
    "direct manipulation of __dict__ / dict.update(inst, ...) is not public API and is not generated",
    "assigning to the setter-less property is not predicted (only the invariants are checked after it)",
]
SHARDS = {"quick": 4, "thorough": 16}

SRC = '''
import utype
from typing import *

class Pos(int, utype.Rule):
    gt = 0

{deco}class {cname}({base}):
{options}{req}
    opt: int = utype.Field(required=False)
    pos: Pos = 1
    name: str = utype.Field(max_length=4, alias='Name', default='n')
{imm}
    ci: int = utype.Field(case_insensitive=True, default=0, alias_from=['CiAlt'])
    hidden: int = utype.Field(no_output=True, default=7)
    ex: int = utype.Field(on_error='exclude', required=False)
    tags: List[Pos] = utype.Field(default_factory=list)

    @property
    @utype.Field(dependencies=['req'])
    def double(self) -> int:
        return self.req * 2

    @property
    @utype.Field(dependencies=['hidden'])
    def hsum(self) -> int:
        return self.hidden + 100

    @property
    @utype.Field(dependencies=['pos', 'hidden'])
    def mix(self) -> int:
        return self.pos * 1000 + self.hidden

    @property
    @utype.Field(dependencies=['mix'])
    def mix2(self) -> int:
        return self.mix + 1

    @property
    @utype.Field(dependencies=['mix'])
    def mixb(self) -> int:
        return self.mix * 2

    @property
    @utype.Field(dependencies=['mix2', 'mixb'])
    def mixd(self) -> int:
        return self.mix2 + self.mixb

    @property
    def sp(self) -> int:
        return getattr(self, '_sp', 0)

    @sp.setter
    def sp(self, v: int = utype.Field(ge=0, required=False)):
        self._sp = v
{sub}'''
SUB = '''

class M(Base):
{options}    req: Pos      # re-annotated, annotation only: still required, now with the stricter type
'''
FIELDS = {   # attname -> (output name, kind)
    "req": ("req", "int"), "opt": ("opt", "int"), "pos": ("pos", "pos"), "name": ("Name", "name"), "imm": ("imm", "int"), "ci": ("ci", "int"),
    "hidden": ("hidden", "int"), "ex": ("ex", "int"), "tags": ("tags", "tags"),
}
KEYS = {  # accepted spellings -> attname
    "req": "req", "opt": "opt", "pos": "pos", "name": "name", "Name": "name", "imm": "imm", "ci": "ci", "CI": "ci", "Ci": "ci", "CiAlt": "ci", "cialt": "ci",
    "hidden": "hidden", "ex": "ex", "tags": "tags", "double": "double", "hsum": "double", "mix": "double", "mix2": "double", "mixb": "double", "mixd": "double", "sp": "double",
}
UNKNOWN = ["zz", "x1"]
_n = [0]


def conforms(kind, v):
    if kind == "int":
        return type(v) is int
    if kind == "pos":
        return type(v) is int and v > 0
    if kind == "name":
        return type(v) is str and len(v) <= 4
    if kind == "tags":
        return type(v) is list and all(type(e) is int and e > 0 for e in v)
    return True


def valid_for(kind, v):
    """would the field type alone accept v (documented conversions)?  Decided with the library's own standalone conversion."""
    import utype
    T = {"int": int, "pos": _POS[0], "name": _NAME[0], "tags": _TAGS[0]}[kind]
    r = oracle.reject_raw(oracle.outcome(utype.type_transform, v, T))
    return r[0] == "ok"


_POS, _NAME, _TAGS = [None], [None], [None]


def _types():
    if _POS[0] is None:
        import typing
        import utype
        from utype.parser.rule import Rule

        class Pos(int, Rule):
            gt = 0
        _POS[0] = Pos
        _NAME[0] = Rule.annotate(str, constraints={"max_length": 4})
        _TAGS[0] = Rule.parse_annotation(typing.List[Pos])


REQ_FORMS = {"required": "    req: int", "default": "    req: int = 3"}     # "default": no field of the class is required
IMM_FORMS = {   # three documented ways to say "this field cannot be reassigned or deleted" ("plain": an ordinary field instead)
    "plain": "    imm: int = 5",
    "field": "    imm: int = utype.Field(immutable=True, default=5)",
    "final": "    imm: Final[int] = 5",
    "final_field": "    imm: Final[int] = utype.Field(default=5, ge=0)",
    # immutable AND kept out of the key view: the value lives in the attribute view only, and is as immutable there
    "hidden_field": "    imm: int = utype.Field(immutable=True, no_output=True, default=5)",
}


def declare(base, options, inherit=False, imm="field", req="required"):
    _types()
    SRC_ = SRC.replace("{imm}", IMM_FORMS[imm]).replace("{req}", REQ_FORMS[req])
    _n[0] += 1
    name = f"vf_c07_m{_n[0]}"
    mod = types.ModuleType(name)
    sys.modules[name] = mod
    o = ", ".join(f"{k}={'int' if v == 'int' else repr(v)}" for k, v in sorted((options or {}).items()))
    opt_line = f"    __options__ = utype.Options({o})\n" if o else ""
    if base == "deco":
        src = SRC_.format(deco=f"@utype.dataclass(set_class_properties=True{', options=utype.Options(' + o + ')' if o else ''})\n", base="object", options="", cname="M", sub="")
    elif inherit:
        # the fields live in a base class; the subclass brings the options and re-annotates one field
        src = SRC_.format(deco="", base=f"utype.{base}", options="", cname="Base", sub=SUB.format(options=opt_line))
    else:
        src = SRC_.format(deco="", base=f"utype.{base}", options=opt_line, cname="M", sub="")
    exec(compile(src, name, "exec"), mod.__dict__)
    return mod, mod.M


def undeclare(mod):
    from utype.parser import base
    for k in [k for k in base.__parsers__ if getattr(k, "__module__", None) == mod.__name__]:
        base.__parsers__.pop(k, None)
    sys.modules.pop(mod.__name__, None)


def view(inst, is_schema):
    """comparable snapshot: key view and attribute view"""
    keys = {k: codec.encode(v) for k, v in dict.items(inst)} if is_schema else None
    attrs = {k: codec.encode(v) for k, v in vars(inst).items() if k not in ("__context__", "__options__")}
    return {"keys": keys, "attrs": attrs}


def check_invariants(inst, is_schema, options, initial_imm, step, inherit=False):
    """-> list of (sig, detail)"""
    fails = []
    addition = (options or {}).get("addition")
    unprov = None
    try:
        from utype.utils.datastructures import unprovided as unprov
    except Exception:
        pass
    # (1) present field values conform
    for att, (out, kind) in FIELDS.items():
        holders = []
        if is_schema and dict.__contains__(inst, out):
            holders.append(("key", dict.__getitem__(inst, out)))
        if att in vars(inst):
            holders.append(("attr", vars(inst)[att]))
        if inherit and att == "req":
            kind = "pos"
        for where, v in holders:
            if unprov is not None and v is unprov:
                fails.append((f"sentinel-stored/{att}", {"where": where}))
            elif not conforms(kind, v):
                fails.append((f"nonconforming-value-stored/{att}/{step}", {"where": where, "value": codec.encode(v)}))
    # unknown keys
    if is_schema:
        for k, v in dict.items(inst):
            if k not in [o for o, _ in FIELDS.values()] and k not in ("double", "hsum", "mix", "mix2", "mixb", "mixd", "sp"):
                if addition is None or addition is False:
                    fails.append((f"unknown-key-stored-although-addition-is-off/{step}", {"key": k}))
                elif addition == "int" and type(v) is not int:
                    fails.append((f"unparsed-addition-stored/{step}", {"key": k, "value": codec.encode(v)}))
    # (1b) keys outside the declaration (kept under addition): attribute and key agree for them as well
    if is_schema and not SHAPE.get("raw_attr"):
        # (inst.zz = v on a name that is no field is plain Python attribute assignment, not an operation on the data: once a history
        # does that the two views of that name are unrelated)
        for k in UNKNOWN:
            in_keys, in_attrs = dict.__contains__(inst, k), k in vars(inst)
            if in_attrs and not in_keys:
                fails.append((f"views-disagree/unknown-key/attribute-without-key/{step}", {"key": k, "attr": codec.encode(vars(inst)[k])}))
            elif in_attrs and in_keys and not oracle.equal(vars(inst)[k], dict.__getitem__(inst, k)):
                fails.append((f"views-disagree/unknown-key/different-values/{step}", {"key": k, "attr": codec.encode(vars(inst)[k]), "item": codec.encode(dict.__getitem__(inst, k))}))
    # (2) required present
    present_req = (dict.__contains__(inst, "req") if is_schema else "req" in vars(inst))
    if not present_req and SHAPE.get("req", "required") == "required":
        fails.append((f"required-field-missing/{step}", {}))
    # (3) immutable unchanged
    cur = dict.get(inst, "imm", None) if (is_schema and SHAPE.get("imm") != "hidden_field") else vars(inst).get("imm")
    if not oracle.equal(cur, initial_imm) and SHAPE.get("imm", "field") != "plain":
        fails.append((f"immutable-field-changed/{step}", {"initial": initial_imm, "now": codec.encode(cur)}))
    # (4) views agree
    for att, (out, kind) in FIELDS.items():
        try:
            got = getattr(inst, att)
            has_attr = True
        except AttributeError:
            has_attr, got = False, None
        except Exception as e:
            fails.append((f"attribute-read-raises/{att}/{type(e).__name__}", {}))
            continue
        if is_schema:
            in_keys = dict.__contains__(inst, out)
            if att == "hidden" or (att == "imm" and SHAPE.get("imm") == "hidden_field"):
                if in_keys:
                    fails.append((f"no_output-field-in-key-view/{step}", {}))
            elif in_keys != has_attr:
                # a deferred default could make the attribute readable: none is declared in this family
                fails.append((f"views-disagree/{att}/{'key-without-attribute' if in_keys else 'attribute-without-key'}/{step}", {}))
            elif in_keys and not oracle.equal(dict.__getitem__(inst, out), got):
                fails.append((f"views-disagree/{att}/different-values/{step}", {"key": codec.encode(dict.__getitem__(inst, out)), "attr": codec.encode(got)}))
            if in_keys and ((out in inst) is False or (att in inst) is False):
                fails.append((f"contains-disagrees/{att}/{step}", {}))
    # (5) dependent property
    try:
        req = getattr(inst, "req")
    except AttributeError:
        req = None
    if type(req) is int:
        try:
            d = getattr(inst, "double")
        except Exception as e:
            d = ("raised", type(e).__name__)
        if d != req * 2:
            fails.append((f"dependent-property-stale/attribute/{step}", {"req": req, "double": codec.encode(d)}))
        if is_schema and dict.__contains__(inst, "double") and dict.__getitem__(inst, "double") != req * 2:
            fails.append((f"dependent-property-stale/key/{step}", {"req": req, "double": codec.encode(dict.__getitem__(inst, 'double'))}))
    try:
        hid = getattr(inst, "hidden")
    except AttributeError:
        hid = None
    if type(hid) is int:
        try:
            h = getattr(inst, "hsum")
        except Exception as e:
            h = ("raised", type(e).__name__)
        if h != hid + 100:
            fails.append((f"dependent-property-stale/of-no_output-field/attribute/{step}", {"hidden": hid, "hsum": codec.encode(h)}))
        if is_schema and dict.__contains__(inst, "hsum") and dict.__getitem__(inst, "hsum") != hid + 100:
            fails.append((f"dependent-property-stale/of-no_output-field/key/{step}", {"hidden": hid, "hsum": codec.encode(dict.__getitem__(inst, 'hsum'))}))
    # a property with a setter takes input like a field: what its setter stored went through the declared type and constraints
    stored = vars(inst).get("_sp", None)
    if "_sp" in vars(inst) and not (type(stored) is int and stored >= 0):
        fails.append((f"unparsed-data-stored-through-a-property-setter/{step}", {"stored": codec.encode(stored)}))
    # a property over two fields, one of them never shown in the key view
    vals = {}
    for att in ("pos", "hidden"):
        try:
            vals[att] = getattr(inst, att)
        except AttributeError:
            vals[att] = None
    if type(vals["pos"]) is int and type(vals["hidden"]) is int:
        want = vals["pos"] * 1000 + vals["hidden"]
        try:
            m = getattr(inst, "mix")
        except Exception as e:
            m = ("raised", type(e).__name__)
        if m != want:
            fails.append((f"dependent-property-stale/of-two-fields/attribute/{step}", {"pos": vals["pos"], "hidden": vals["hidden"], "mix": codec.encode(m)}))
        if is_schema and dict.__contains__(inst, "mix") and dict.__getitem__(inst, "mix") != want:
            fails.append((f"dependent-property-stale/of-two-fields/key/{step}", {"pos": vals["pos"], "hidden": vals["hidden"], "mix": codec.encode(dict.__getitem__(inst, 'mix'))}))
        # a property computed from another property follows it
        try:
            m2 = getattr(inst, "mix2")
        except Exception as e:
            m2 = ("raised", type(e).__name__)
        if m == want and m2 != want + 1:
            fails.append((f"dependent-property-stale/of-a-property/attribute/{step}", {"mix": codec.encode(m), "mix2": codec.encode(m2)}))
        if is_schema and m == want and dict.__contains__(inst, "mix") and dict.__contains__(inst, "mix2") and dict.__getitem__(inst, "mix2") != want + 1:
            fails.append((f"dependent-property-stale/of-a-property/key/{step}", {"mix": codec.encode(m), "mix2": codec.encode(dict.__getitem__(inst, 'mix2'))}))
        # ... also where two properties computed from one property feed a fourth (a diamond below a property)
        if m == want and m2 == want + 1:
            try:
                md = getattr(inst, "mixd")
            except Exception as e:
                md = ("raised", type(e).__name__)
            wd = (want + 1) + want * 2
            if md != wd:
                fails.append((f"dependent-property-stale/diamond/attribute/{step}", {"mix": codec.encode(m), "mixd": codec.encode(md), "expected": wd}))
            if is_schema and dict.__contains__(inst, "mixd") and dict.__contains__(inst, "mixb") and dict.__getitem__(inst, "mixb") == want * 2 and dict.__getitem__(inst, "mixd") != wd:
                fails.append((f"dependent-property-stale/diamond/key/{step}", {"mix": codec.encode(m), "mixd": codec.encode(dict.__getitem__(inst, 'mixd')), "expected": wd}))
    # (a property key whose dependency was deleted keeps its last value: tests/test_cls.py asserts that - "slug is not affected")
    return fails


SHAPE = {}      # declaration variant of the running case (req form, imm form)
SINGLE = ("setattr", "delattr", "setitem", "delitem", "pop", "pop_default", "setdefault", "popitem")


def apply_op(inst, op, is_schema):
    k, name, val = op["op"], op.get("key"), op.get("value")
    v = codec.decode(val) if "value" in op else None
    if k == "setattr":
        return setattr(inst, name, v)
    if k == "delattr":
        return delattr(inst, name)
    if not is_schema:
        raise HarnessError("mapping operation on an attribute-based class")
    if k == "setitem":
        inst[name] = v
    elif k == "delitem":
        del inst[name]
    elif k == "pop":
        return inst.pop(name)
    elif k == "pop_default":
        return inst.pop(name, v)
    elif k == "popitem":
        return inst.popitem()
    elif k == "setdefault":
        return inst.setdefault(name, v) if "value" in op else inst.setdefault(name)
    elif k == "clear":
        inst.clear()
    elif k == "update":
        inst.update({kk: codec.decode(vv) for kk, vv in op["items"]})
    elif k == "update_kw":
        inst.update(**{kk: codec.decode(vv) for kk, vv in op["items"]})
    elif k == "ior":
        inst |= {kk: codec.decode(vv) for kk, vv in op["items"]}
    else:
        raise HarnessError(f"bad op {k}")


def predict(op, inst, is_schema, options, inherit=False):
    """'refuse' | 'accept' | None (no documented prediction) for single-key operations"""
    k, name = op["op"], op.get("key")
    imm_all = bool((options or {}).get("immutable"))
    att = KEYS.get(name)
    if k in ("setattr", "setitem"):
        if k == "setattr" and name not in FIELDS:
            return None
        if att is None or att == "double":
            return None
        if imm_all or (att == "imm" and SHAPE.get("imm", "field") != "plain"):
            return "refuse"
        v = codec.decode(op["value"])
        ok = valid_for("pos" if (inherit and att == "req") else FIELDS[att][1], v)
        if att == "ex":
            return "accept"        # on_error='exclude': an invalid value is ignored without an error
        return "accept" if ok else "refuse"
    if k in ("delattr", "delitem", "pop"):
        if k == "delattr" and name not in FIELDS:
            return None
        if att is None or att == "double":
            return None
        if imm_all or (att == "imm" and SHAPE.get("imm", "field") != "plain") or (att == "req" and SHAPE.get("req", "required") == "required"):
            return "refuse"
        out = FIELDS[att][0]
        present = dict.__contains__(inst, out) if is_schema else att in vars(inst)
        if (att == "hidden" or (att == "imm" and SHAPE.get("imm") == "hidden_field")) and is_schema:
            return None
        if not present:
            if k == "pop":
                return "refuse"
            return "accept" if (options or {}).get("ignore_delete_nonexistent") else "refuse"
        return "accept"
    return None


def run_case(case):
    try:
        base, options, init, ops = case["base"], case.get("options") or {}, case["init"], case["ops"]
    except (KeyError, TypeError):
        raise HarnessError("malformed case")
    if base not in ("Schema", "DataClass", "deco") or not isinstance(ops, list):
        raise HarnessError("bad case")
    for key in options:
        if key not in ("addition", "ignore_delete_nonexistent", "immutable"):
            raise HarnessError("bad option")
    is_schema = base == "Schema"
    inherit = bool(case.get("inherit")) and base != "deco" and case.get("req", "required") == "required"
    if case.get("imm", "field") not in IMM_FORMS or case.get("req", "required") not in REQ_FORMS:
        raise HarnessError("bad declaration form")
    mod, M = declare(base, options, inherit, case.get("imm", "field"), case.get("req", "required"))
    SHAPE.clear()
    SHAPE.update(imm=case.get("imm", "field"), req=case.get("req", "required"))
    try:
        data = {k: codec.decode(v) for k, v in init}
        made = oracle.outcome(lambda: M(**data))
        if made[0] != "ok":
            return {"status": "init-rejected", "fails": [], "applied": 0}
        inst = made[1]
        initial_imm = dict.get(inst, "imm") if (is_schema and SHAPE.get("imm") != "hidden_field") else vars(inst).get("imm")
        fails = check_invariants(inst, is_schema, options, initial_imm, "after-init", inherit)
        applied, refused, interesting = 0, 0, False
        deleted = False
        target = inst
        original_view = None
        for i, op in enumerate(ops):
            if fails:
                break
            k = op.get("op")
            if k == "copy":
                if not is_schema or target is not inst:
                    continue
                original_view = view(inst, is_schema)
                target = inst.copy()
                interesting = True
                continue
            if not is_schema and k not in ("setattr", "delattr"):
                continue
            if k in ("setattr", "delattr") and op.get("key") in UNKNOWN:
                SHAPE["raw_attr"] = True
            before = view(target, is_schema)
            want = predict(op, target, is_schema, options, inherit) if k in SINGLE else None
            out = oracle.outcome(apply_op, target, op, is_schema)
            step = k
            if out[0] == "hang":
                fails.append((f"operation-hangs/{k}", {"op": op}))
                break
            raised = out[0] != "ok"
            if raised:
                refused += 1
                e = out[1]
                from utype.utils import exceptions as exc
                if not isinstance(e, (exc.ParseError, exc.UpdateError, exc.DeleteError, AttributeError, KeyError)):
                    pass   # the exception class of mutators is not fixed by the property; unexpected internal errors are C04's kind
                if k in SINGLE and view(target, is_schema) != before:
                    fails.append((f"state-changed-although-the-operation-raised/{k}", {"op": op, "error": f"{type(e).__name__}: {str(e)[:120]}",
                                                                                     "before": before, "after": view(target, is_schema)}))
                if want == "accept":
                    fails.append((f"valid-operation-refused/{k}/{KEYS.get(op.get('key'), op.get('key'))}", {"op": op, "error": f"{type(e).__name__}: {str(e)[:160]}"}))
            else:
                applied += 1
                if want == "refuse":
                    fails.append((f"operation-not-refused/{k}/{KEYS.get(op.get('key'), op.get('key'))}", {"op": op, "state": view(target, is_schema)}))
                if k in ("delattr", "delitem", "pop", "pop_default", "popitem", "clear"):
                    deleted = True
                elif deleted and k in ("setattr", "setitem", "update", "update_kw", "setdefault", "ior"):
                    interesting = True
                if k in ("setdefault", "popitem", "ior", "clear"):
                    interesting = True
            fails += check_invariants(target, is_schema, options, initial_imm, step, inherit)
            if original_view is not None and view(inst, is_schema) != original_view:
                fails.append((f"original-changed-through-its-copy/{k}", {"op": op, "before": original_view, "after": view(inst, is_schema)}))
        nt = (applied >= 3 and interesting) or refused > 0
        return {"status": "ok", "fails": fails[:3], "applied": applied, "refused": refused, "nt": nt}
    finally:
        undeclare(mod)


def judge(case):
    try:
        return run_case(case)["fails"]
    except (KeyError, IndexError, TypeError, AttributeError) as e:
        raise HarnessError(f"malformed case: {e}")


# -- strategies --------------------------------------------------------------------------------------------------

INT_VALUES = st.sampled_from([3, 0, -1, "4", "x", None, {"t": "float", "v": "2.5"}, True, {"t": "list", "v": [1]}, {"t": "float", "v": "2.0"}, 12345678, "", {"t": "obj"}])
NAME_VALUES = st.sampled_from(["ab", "abcd", "toolong", 5, "", None, {"t": "list", "v": ["a"]}, {"t": "bytes", "v": "6162"}])
TAG_VALUES = st.sampled_from([{"t": "list", "v": [1, "2"]}, {"t": "list", "v": [0]}, "x", {"t": "list", "v": [1, "x"]}, {"t": "list", "v": []}, "1,2", {"t": "tuple", "v": [3]}, 5])


def value_for(key):
    att = KEYS.get(key)
    if att in ("name",):
        return st.one_of(NAME_VALUES, INT_VALUES)
    if att == "tags":
        return st.one_of(TAG_VALUES, TAG_VALUES, INT_VALUES)
    return st.one_of(INT_VALUES, INT_VALUES, NAME_VALUES)


ALL_KEYS = list(KEYS) + UNKNOWN


@st.composite
def op_specs(draw, schema):
    kinds = ["setattr", "setattr", "delattr"]
    if schema:
        kinds += ["setitem", "setitem", "delitem", "pop", "pop_default", "popitem", "setdefault", "setdefault", "clear", "update", "update_kw", "ior", "copy"]
    k = draw(st.sampled_from(kinds))
    if k in ("popitem", "clear", "copy"):
        return {"op": k}
    if k in ("update", "update_kw", "ior"):
        keys = draw(st.lists(st.sampled_from(ALL_KEYS if k != "update_kw" else [x for x in ALL_KEYS if x.isidentifier()]), min_size=1, max_size=3, unique=True))
        return {"op": k, "items": [[kk, draw(value_for(kk))] for kk in keys]}
    key = draw(st.sampled_from(list(FIELDS) + ["double", "zz", "sp", "sp"] if k in ("setattr", "delattr") else ALL_KEYS))
    op = {"op": k, "key": key}
    if k in ("setattr", "setitem", "pop_default") or (k == "setdefault" and draw(st.booleans())):
        op["value"] = draw(value_for(key))
    return op


@st.composite
def cases(draw):
    base = draw(st.sampled_from(["Schema", "Schema", "Schema", "DataClass", "deco"]))
    options = {}
    if draw(st.booleans()):
        options["addition"] = draw(st.sampled_from([True, "int"]))
    if draw(st.booleans()):
        options["ignore_delete_nonexistent"] = True
    if draw(st.sampled_from([False] * 9 + [True])):
        options["immutable"] = True
    init = [["req", draw(st.sampled_from([1, "2", 7]))]]
    for key, vals in (("opt", [4, "5"]), ("pos", [2, "3"]), ("Name", ["ab", "x"]), ("imm", [9, "8"]), ("CiAlt", [6]), ("hidden", [1]), ("ex", [2, "x"]), ("tags", [{"t": "list", "v": [1, "2"]}])):
        if draw(st.booleans()):
            init.append([key, draw(st.sampled_from(vals))])
    if options.get("addition") and draw(st.booleans()):
        init.append(["zz", draw(st.sampled_from([1, "7"]))])
    ops = draw(st.lists(op_specs(base == "Schema"), min_size=1, max_size=12))
    case = {"base": base, "options": options, "init": init, "ops": ops}
    imm = draw(st.sampled_from(["field", "field", "final", "final_field", "plain", "hidden_field"]))
    if imm != "field":
        case["imm"] = imm
    if draw(st.sampled_from([False, False, True])):
        case["req"] = "default"      # no required field: clear(), popitem() ... can empty the instance
    if base != "deco" and draw(st.sampled_from([False, False, True])):
        case["inherit"] = True
    return case


def campaign(ctx):
    def body(case):
        r = run_case(case)
        ctx.label(f"status_{r['status']}")
        ctx.label(f"base_{case['base']}")
        ctx.label(f"immutable_declared_as_{case.get('imm', 'field')}")
        ctx.label(f"req_{case.get('req', 'required')}")
        if r["status"] == "ok":
            for op in case["ops"]:
                ctx.label(f"op_{op['op']}")
            ctx.label("applied_ops", r["applied"])
            ctx.label("refused_ops", r["refused"])
            if r["nt"]:
                ctx.nt(case)
                ctx.sample(case["base"], case)
        ctx.fail_all(r["fails"], case)
    ctx.run_given(cases(), body, max_examples=ctx.n(2500, 20000))
