"""C19 - parsing is pure: no input mutation, no shared defaults, no cross-call state.

Three parts, one evidence file.
(a) no input mutation: (type, value with nested mutable containers, options, entry) as in C01 plus exclude policies,
    lax constraints and cast_keyword_str; a deep snapshot of the caller's object (types, contents and identity of every
    nested container) is taken before and compared after the call, for successes and failures.
(b) no shared defaults: declarations with mutable defaults (class attribute, Field(default=), default_factory,
    function parameter default, Param(default=), Options(force_default=)) nested up to three levels; two instances /
    calls omit the field, the first result is mutated in place at every nesting level; the second result, the
    declared default object and a third, later result are unchanged and no two of them share a mutable object.
(c) no cross-call state: a generated history of parses (valid, invalid, other runtime options, collecting, first use of
    forward references) on a shared program, then a probe parse whose outcome must equal the probe's outcome on a fresh
    re-declaration of the same source in a new module (and, sampled, in a fresh interpreter).
"""
import json
import os
import subprocess
import sys
import types

from hypothesis import strategies as st

from .. import codec, dspec, entries, gen, oracle, tspec
from ..core import HarnessError, REPO, ROOT
from .c01 import decl_errors

ID = "C19"
RULE = ("(a) cases with at least one mutable container in the input; non-trivial = the parse converted something (result differs from input) or failed; "
        "(b) default value specs with nested mutable containers x declaration form x base; non-trivial = a nested mutable default; "
        "(c) histories of 1..8 parses followed by a probe; non-trivial = the history contains a failed parse or a parse with other options before the probe. "
        "distinct = hash of the case (d) every (target, input) of the fixed program parsed in fresh interpreters in 3 (thorough: 5) different orders; non-trivial by construction (each input is preceded by different parses in each order). Part (a) also re-parses a fresh copy of the input after editing the first result in place. (e) one module-level function declared twice, every ordered pair of six option sets x seven calls; non-trivial = the two option sets differ.")
ASSUMPTIONS = [
    "aliasing is not mutation: a result may share an object with the input (same-type short-cut of bare types); only changes of the caller's objects are "
    "reported - except for parameterised List[T]/Set[T]/Dict[K,V] positions, whose result containers the args parsers build fresh (anchored mechanism): "
    "there the result must not BE the caller's container",
    "consuming a one-shot iterator is not counted as mutation (iterators are not generated as inputs here)",
    "(c) outcomes are compared through vf/oracle.py:plain / (exception class, item)",
]
SHARDS = {"quick": 4, "thorough": 16}

MUTABLE_TAGS = {"list", "dict", "set", "bytearray", "deque"}


def has_mutable(vs):
    if isinstance(vs, dict):
        if vs.get("t") in MUTABLE_TAGS or (vs.get("t") == "sub" and vs.get("b") in ("list", "dict")):
            return True
        v = vs.get("v")
        return has_mutable(v) if isinstance(v, (dict, list)) else False
    if isinstance(vs, list):
        return any(has_mutable(e) for e in vs)
    return False


def snapshot(x, _seen=None, depth=0):
    """(structure incl. types and contents, [(path, id)] of every container)"""
    ids = []

    def walk(v, path, d):
        if d > 12:
            return "<deep>"
        if isinstance(v, (list, tuple)) or type(v).__name__ == "deque":
            ids.append((path, id(v)))
            return [type(v).__name__] + [walk(e, path + (i,), d + 1) for i, e in enumerate(v)]
        if isinstance(v, dict):
            ids.append((path, id(v)))
            return [type(v).__name__] + [[walk(k, path + ("k", i), d + 1), walk(val, path + ("v", i), d + 1)] for i, (k, val) in enumerate(v.items())]
        if isinstance(v, (set, frozenset)):
            ids.append((path, id(v)))
            return [type(v).__name__] + sorted((json.dumps(codec.encode(e), sort_keys=True, default=repr) for e in v))
        if isinstance(v, bytearray):
            ids.append((path, id(v)))
            return ["bytearray", bytes(v).hex()]
        return codec.encode(v)
    return walk(x, (), 0), ids


# -- (a) -------------------------------------------------------------------------------------------------

A_OPTIONS = st.fixed_dictionaries({}, optional={
    "no_explicit_cast": st.just(True), "no_data_loss": st.just(True), "collect_errors": st.just(True),
    "invalid_items": st.sampled_from(["exclude", "preserve"]), "invalid_keys": st.sampled_from(["exclude", "preserve"]),
    "invalid_values": st.sampled_from(["exclude", "preserve"]), "cast_keyword_str": st.just(True), "addition": st.sampled_from([True, False]),
})
A_ENTRIES = ["call", "transform", "schema", "dataclass", "param", "return", "setattr", "from", "init_pos", "init_mixed"]
DATA_ONLY = ("from", "init_pos", "init_mixed")


def run_a(case):
    import utype
    spec, vs, opts, entry = case["type"], case["value"], case.get("options") or {}, case["entry"]
    tspec.validate(spec)
    from .c09 import _one_shot_spec
    if _one_shot_spec(vs):
        raise HarnessError("one-shot input")
    try:
        T = tspec.build(spec)
        if entry in DATA_ONLY:
            if spec["k"] != "data":
                raise HarnessError("this entry needs a data spec")
            o = entries.make_options(opts)
            if entry == "from":
                fn = (lambda x: T.__from__(x, o)) if o is not None else (lambda x: T.__from__(x))
            elif entry == "init_pos":
                fn = lambda x: T(x)
            else:
                fn = None   # built below: positional dict plus keyword arguments
        else:
            fn = entries.build_entry(entry, T, opts)
    except HarnessError:
        raise
    except decl_errors():
        return {"status": "discarded", "fails": []}
    x = codec.decode(vs)
    if entry == "init_mixed":
        if not isinstance(x, dict) or not all(isinstance(k, str) for k in x):
            return {"status": "discarded", "fails": []}
        keys = list(x)
        kw = {k: x.pop(k) for k in keys[len(keys) // 2:]}
        fn = lambda d: T(d, **kw)
    before, ids_before = snapshot(x)
    out = oracle.outcome(fn, x)
    after, ids_after = snapshot(x)
    fails = []
    if before != after or ids_before != ids_after:
        where = _first_diff(before, after)
        fails.append((f"input-mutated/{entry}/{_kind_at(spec, out)}", {"before": before, "after": after, "outcome": out[0], "where": where}))
    changed = out[0] == "ok" and out[1] is not entries.ABSENT and not oracle.equal(out[1], codec.decode(vs))
    preserving = any(v == "preserve" for k, v in opts.items() if k.startswith("invalid_"))     # 'preserve' keeps the caller's raw object on purpose
    if out[0] == "ok" and out[1] is not entries.ABSENT and entry in ("call", "transform", "schema", "dataclass", "param") and not preserving:
        shared = aliased_generic(spec, x, out[1])
        if shared:
            # the result of a parameterised container type is built by the args parsers: handing the caller's own list/set/dict
            # back means a later change of the result (or of a sibling result parsed from the same object) changes the input
            fails.append((f"result-of-a-parameterised-container-is-the-callers-object/{shared}", {"where": shared, "input": before}))
    if out[0] == "ok" and out[1] is not entries.ABSENT and entry in ("call", "transform", "schema", "dataclass", "param") and not fails:
        # a later parse of an equal input is independent of what the caller does to an earlier result: edit every mutable
        # container of this result in place, then parse a fresh copy of the same input
        first, _ = snapshot(oracle.plain(out[1]))
        try:
            mutate_everywhere(out[1])
            edited = True
        except Exception:
            edited = False
        if edited and not _set_with_nan(vs):
            again = oracle.outcome(fn, codec.decode(vs))
            if again[0] == "ok":
                second, _ = snapshot(oracle.plain(again[1]))
                # (text made from a repr that names a memory address - str(deque([memoryview(b'')])) - differs between two decodes)
                if first != second and " at 0x" not in json.dumps(first, default=repr) and "2061742030" not in json.dumps(first, default=repr):
                    fails.append((f"later-parse-sees-an-edit-of-an-earlier-result/{_kind_at(spec, out)}", {"first": first, "later": second}))
    return {"status": out[0], "fails": fails, "changed": changed}


def aliased_generic(spec, x, r, path=""):
    """kind/path of the first mutable container of the input that a parameterised List/Set/Dict position of the result IS"""
    k = spec.get("k")
    if k in ("list", "set", "dict") and spec.get("m", "annotate") != "bare":
        want = {"list": list, "set": set, "dict": dict}[k]
        if type(r) is want and r is x:
            return f"{k}{path and '/nested'}{'/empty' if not len(r) else ''}"
        if type(r) is want and type(x) is want and len(r) == len(x):
            if k == "list":
                for a, b in zip(x, r):
                    got = aliased_generic(spec["a"], a, b, path + "/item")
                    if got:
                        return got
            elif k == "dict":
                for (ka, va), (kb, vb) in zip(x.items(), r.items()):
                    got = aliased_generic(spec["val"], va, vb, path + "/value")
                    if got:
                        return got
    elif k == "opt" and x is not None:
        return aliased_generic(spec["a"], x, r, path)
    return None


def _kind_at(spec, out):
    return spec["k"] + ("/" + spec.get("o", "") if spec["k"] in ("leaf", "con") else "") + ("/failed" if out[0] != "ok" else "")


def _first_diff(a, b, path=()):
    if type(a) is not type(b):
        return list(path)
    if isinstance(a, list):
        if len(a) != len(b):
            return list(path) + ["len"]
        for i, (x, y) in enumerate(zip(a, b)):
            if x != y:
                return _first_diff(x, y, path + (i,))
    return list(path)


def _os(v):
    from .c09 import _one_shot_spec
    return _one_shot_spec(v)


def a_cases(thorough):
    data = dspec.decl_specs(rich=True, bases=("schema", "dataclass"), max_fields=3, options=dspec.CLASS_OPTIONS).map(lambda d: {"k": "data", "d": d})
    ts = gen.type_specs(max_leaves=4 if thorough else 3, lax_ok=True, data=data)
    ts = st.one_of(gen.constrained(lax_ok=True, origins=["list", "tuple", "set", "dict", "str", "bytes"]), ts, ts, ts, data)

    def with_value(spec):
        vals = st.one_of(gen.conforming(spec), gen.conforming(spec), gen.hostile(max_leaves=8)).filter(lambda v: has_mutable(v) and not _os(v))
        ents = st.sampled_from(A_ENTRIES + ["init_mixed", "init_pos", "from"] if spec["k"] == "data" else [e for e in A_ENTRIES if e not in DATA_ONLY])
        return st.fixed_dictionaries({"part": st.just("a"), "type": st.just(spec), "value": vals, "options": A_OPTIONS, "entry": ents})
    return ts.flatmap(with_value)


# -- (b) -------------------------------------------------------------------------------------------------

DEFAULTS = [
    {"t": "list", "v": []}, {"t": "list", "v": [1, 2]}, {"t": "list", "v": [{"t": "list", "v": [1]}, {"t": "list", "v": []}]},
    {"t": "dict", "v": []}, {"t": "dict", "v": [["a", {"t": "list", "v": [1]}]]},
    {"t": "dict", "v": [["a", {"t": "dict", "v": [["b", {"t": "list", "v": [1, {"t": "dict", "v": [["c", {"t": "list", "v": []}]]}]}]]}]]},
    {"t": "list", "v": [{"t": "dict", "v": [["k", {"t": "list", "v": [1]}]]}]},
    {"t": "tuple", "v": [{"t": "list", "v": [1]}, {"t": "list", "v": []}]}, {"t": "tuple", "v": [{"t": "dict", "v": [["a", {"t": "list", "v": []}]]}]},
    {"t": "set", "v": [1, 2]}, {"t": "list", "v": [{"t": "set", "v": [1]}]}, {"t": "dict", "v": [["s", {"t": "set", "v": []}], ["t", {"t": "tuple", "v": [{"t": "list", "v": []}]}]]},
    {"t": "list", "v": [{"t": "tuple", "v": [{"t": "list", "v": [{"t": "list", "v": []}]}]}]},
    {"t": "pair", "v": [1, {"t": "list", "v": [2]}]}, {"t": "list", "v": [{"t": "pair", "v": [{"t": "list", "v": []}, {"t": "dict", "v": []}]}]},
    {"t": "dict", "v": [["p", {"t": "pair", "v": [1, 2]}]]},
]
# (keeping_factory / param_keeping_factory: a factory that hands out the SAME object every time - a cached loader, `lambda: CONSTANT`;
#  its product is a default like any other: what arrives is a copy)
FORMS = ["attr", "field_default", "factory", "func_default", "param_default", "param_factory", "force_default", "keeping_factory", "param_keeping_factory"]
BASES = ["schema", "dataclass", "deco"]


def mutables_in(x, out=None, depth=0):
    """every mutable container reachable in x"""
    out = [] if out is None else out
    if depth > 10:
        return out
    if isinstance(x, (list, dict, set, bytearray)):
        out.append(x)
    if isinstance(x, (list, tuple, set, frozenset)):
        for e in x:
            mutables_in(e, out, depth + 1)
    elif isinstance(x, dict):
        for v in x.values():
            mutables_in(v, out, depth + 1)
    return out


def mutate_everywhere(x):
    for m in mutables_in(x):
        if type(m) not in (list, dict, set):
            continue        # data class instances guard their own mutation (C07)
        if isinstance(m, list):
            m.append("MUT")
        elif isinstance(m, dict):
            m["MUT"] = "MUT"
        elif isinstance(m, set):
            m.add("MUT")


def _set_with_nan(vs, depth=0):
    """a set holding a NaN iterates in an order that depends on object identity (NaN hashes by id): two decodes of the spec
    are two different inputs as far as order goes"""
    if not isinstance(vs, dict) or depth > 8:
        return False
    if vs.get("t") in ("set", "frozenset") and len(vs.get("v") or []) > 1 and any(
            isinstance(e, dict) and e.get("t") in ("float", "decimal") and "nan" in str(e.get("v")).lower() for e in vs["v"]):
        return True
    v = vs.get("v")
    if isinstance(v, list):
        return any(_set_with_nan(e, depth + 1) if not isinstance(e, list) else any(_set_with_nan(x, depth + 1) for x in e) for e in v)
    return False


def run_b(case):
    import utype
    form, base, dvs = case["form"], case.get("base", "schema"), case["default"]
    if form not in FORMS or base not in BASES:
        raise HarnessError("bad (b) case")
    D = codec.decode(dvs)            # the declared default object (the harness keeps a reference)
    pristine = codec.decode(dvs)
    factory_calls = []

    def factory():
        v = codec.decode(dvs)
        factory_calls.append(v)
        return v
    get = None
    try:
        if form in ("func_default", "param_default", "param_factory", "param_keeping_factory"):
            if form == "func_default":
                def f(a: utype.Rule = D):   # noqa: B006 - the point of the exercise
                    return a
            elif form == "param_default":
                def f(a=utype.Param(default=D)):
                    return a
            elif form == "param_keeping_factory":
                def f(a=utype.Param(default_factory=lambda: D)):
                    return a
            else:
                def f(a=utype.Param(default_factory=factory)):
                    return a
            if form == "func_default":
                f.__annotations__ = {}
            g = utype.parse(f)
            get = lambda: g()
        else:
            ns = {"__module__": "vf.dspec", "__qualname__": "B19"}
            ann = {"a": utype.Rule, "z": int}
            ns["z"] = 0
            opts = None
            if form == "attr":
                ns["a"] = D
            elif form == "field_default":
                ns["a"] = utype.Field(default=D)
            elif form == "factory":
                ns["a"] = utype.Field(default_factory=factory)
            elif form == "keeping_factory":
                ns["a"] = utype.Field(default_factory=lambda: D)
            else:
                ns["a"] = utype.Field(required=False)
                opts = utype.Options(force_default=D)
            ns["__annotations__"] = ann
            if base == "deco":
                cls = utype.dataclass(type("B19", (), ns), options=opts)
            else:
                if opts is not None:
                    ns["__options__"] = opts
                cls = type("B19", (utype.Schema if base == "schema" else utype.DataClass,), ns)
            get = lambda: cls().a
    except decl_errors():
        return {"status": "discarded", "fails": []}
    try:
        fails = []
        det = {"form": form, "base": base}
        r1 = oracle.outcome(get)
        r2 = oracle.outcome(get)
        # the slot is untyped (Rule = any value): a copy of the declared default is all that may arrive
        if r1[0] != "ok" or r2[0] != "ok":
            bad = r1 if r1[0] != "ok" else r2
            e = bad[1] if len(bad) > 1 else None
            return {"status": "other", "fails": [(f"default-not-delivered/{type(e).__name__ if isinstance(e, BaseException) else bad[0]}/{form}", dict(det, error=str(e)[:200]))]}
        v1, v2 = r1[1], r2[1]
        if not oracle.equal(v1, pristine) or not oracle.equal(v2, pristine):
            return {"status": "default-converted", "fails": [(f"default-copy-differs-from-the-declared-default/{form}", dict(det, got=codec.encode(v1), declared=dvs))]}
        sets = {"first": mutables_in(v1), "second": mutables_in(v2)}
        if form not in ("factory", "param_factory"):
            sets["declared"] = mutables_in(D)
        names = list(sets)
        for i in range(len(names)):
            for j in range(i + 1, len(names)):
                shared = [m for m in sets[names[i]] if any(m is n for n in sets[names[j]])]
                if shared:
                    fails.append((f"default-shared/{form}/{names[i]}-and-{names[j]}", dict(det, shared_type=type(shared[0]).__name__,
                                                                                          top_level=shared[0] is (v1 if names[i] == 'first' else v2))))
        mutate_everywhere(v1)
        if not oracle.equal(v2, pristine):
            fails.append((f"second-result-changed-by-mutating-the-first/{form}", det))
        if form not in ("factory", "param_factory") and not oracle.equal(D, pristine):
            fails.append((f"declared-default-changed/{form}", det))
        r3 = oracle.outcome(get)
        if r3[0] == "ok" and not oracle.equal(r3[1], pristine):
            fails.append((f"later-result-changed/{form}", det))
        nested = len(mutables_in(pristine)) > 1 or (isinstance(pristine, tuple) and mutables_in(pristine))
        return {"status": "ok", "fails": fails, "nested": nested}
    finally:
        dspec.cleanup()


# -- (c) -------------------------------------------------------------------------------------------------

PROGRAM = '''
import utype
from typing import *
from utype import Schema, DataClass, Field, Options, Rule, Lax
from datetime import date, datetime, timedelta

class Pos(int, Rule):
    gt = 0

class Tag(Schema):
    name: str = Field(max_length=4)
    weight: Union[Pos, float] = 1

class Node(Schema):
    __options__ = Options(max_depth=4)
    id: Pos
    tags: List['Tag'] = Field(default_factory=list)
    next: Optional['Node'] = None
    meta: Dict[str, Union[int, List[int]]] = Field(default_factory=dict)

class Acc(DataClass):
    __options__ = Options(case_insensitive=True, addition=True)
    user: str = Field(alias_from=['login'], max_length=6)
    level: int = Field(ge=Lax(0), default=0)
    peers: List['Acc'] = Field(default_factory=list)

class Ev(Schema):
    when: date
    at: Optional[datetime] = None
    span: timedelta = None
    n: Union[int, float] = 0

@utype.parse
def total(items: List['Tag'], *extra: Pos, scale: float = 1.0, **named: Pos) -> float:
    return (sum(t.weight for t in items) + sum(extra) + sum(named.values())) * scale
'''
TARGETS = ["Tag", "Node", "Acc", "total", "Pos", "Ev"]
C_INPUTS = {
    "Tag": [{"name": "a"}, {"name": "abcde"}, {"name": 1, "weight": "2"}, {"name": "x", "weight": -1}, {"name": "x", "weight": "abc"}, {}, {"name": ["q"], "weight": [3]}],
    "Node": [{"id": 1}, {"id": "2", "tags": [{"name": "t"}]}, {"id": 0}, {"id": 1, "next": {"id": 2, "next": {"id": 3}}}, {"id": 1, "next": {"id": -1}},
             {"id": 1, "tags": [{"name": "toolong"}]}, {"id": 1, "meta": {"a": "1", "b": ["2", 3]}}, {"id": 1, "meta": {"a": "x"}},
             {"id": 1, "next": {"id": 2, "next": {"id": 3, "next": {"id": 4, "next": {"id": 5}}}}}, '{"id": 7, "tags": []}'],
    "Acc": [{"user": "bob"}, {"LOGIN": "al", "Level": "-3"}, {"user": "toolongname"}, {"user": "a", "peers": [{"user": "b", "x": 1}]}, {"user": "a", "login": "b"},
            {"user": "a", "extra": [1]}, {"user": "a", "peers": [{"user": "toolongname"}]}, {}],
    "total": [{"args": [[{"name": "a", "weight": 2}]], "kwargs": {}}, {"args": [[{"name": "a"}], 1, "2"], "kwargs": {"scale": "2"}},
              {"args": [[{"name": "toolong"}]], "kwargs": {}}, {"args": [[], -1], "kwargs": {}}, {"args": [[]], "kwargs": {"k": 3, "j": "4"}},
              {"args": [[]], "kwargs": {"k": 0}}, {"args": [], "kwargs": {}}, {"args": ["[]"], "kwargs": {"scale": "x"}}],
    "Pos": [1, "2", 0, -1, "abc", [3], None],
    # text forms that are read by trying formats / spellings in turn (ambiguous day-month order, timestamps, durations, numbers)
    "Ev": [{"when": "01/02/2023"}, {"when": "12/25/2023"}, {"when": "25/12/2023"}, {"when": "2023-01-02", "at": "01/02/2023 10:00:00"}, {"when": "02/01/2023", "at": "2023-02-01T10:00:00Z"},
           {"when": 1577836800, "span": "1 02:03:04"}, {"when": "x"}, {"when": "2023/03/04", "span": "P1DT2H", "n": "1.50"}, {"when": "03/04/2023", "at": "03/04/2023", "n": "7"},
           {"when": "2023-13-45"}],
}
C_OPTIONS = [None, None, None, {"collect_errors": True}, {"no_explicit_cast": True}, {"no_data_loss": True}, {"invalid_values": "exclude"},
             {"invalid_items": "exclude"}, {"ignore_required": True}, {"max_depth": 2}, {"addition": False}, {"case_insensitive": True}, {"mode": "r"}]
_cmod = [0]


def load_program():
    _cmod[0] += 1
    name = f"vf_c19_prog{_cmod[0]}"
    mod = types.ModuleType(name)
    sys.modules[name] = mod
    exec(compile(PROGRAM, name, "exec"), mod.__dict__)
    return mod


def unload_program(mod):
    from utype.parser import base
    for k in [k for k in base.__parsers__ if getattr(k, "__module__", None) == mod.__name__]:
        base.__parsers__.pop(k, None)
    sys.modules.pop(mod.__name__, None)


def do_step(mod, step):
    """-> comparable outcome of one parse"""
    import copy
    target, idx, oi = step["target"], step["input"], step.get("options", 0)
    inp = copy.deepcopy(C_INPUTS[target][idx % len(C_INPUTS[target])])
    o = C_OPTIONS[oi % len(C_OPTIONS)]
    opts = entries.make_options(o)
    obj = getattr(mod, target)
    if target == "total":
        if opts is not None:
            return ("skip",)
        out = oracle.outcome(lambda: obj(*inp["args"], **inp["kwargs"]))
    elif target == "Pos":
        import utype
        out = oracle.outcome(utype.type_transform, inp, obj, opts)
    else:
        out = oracle.outcome(obj.__from__, inp, opts) if opts is not None else oracle.outcome(obj.__from__, inp)
    if out[0] == "ok":
        return ("ok", json.dumps(codec.encode(oracle.plain(out[1])), sort_keys=True, default=repr))
    if out[0] == "perr":
        from .c06 import kinds_of
        return ("perr", sorted(map(repr, kinds_of(out[1]))), str(out[1]))
    if out[0] == "other":
        return ("other", type(out[1]).__name__, str(out[1])[:200])
    return out


def run_c(case):
    history, probe = case["history"], case["probe"]
    for s in list(history) + [probe]:
        if s.get("target") not in TARGETS or not isinstance(s.get("input"), int):
            raise HarnessError("bad step")
    shared = load_program()
    try:
        outs = [do_step(shared, s) for s in history]
        got = do_step(shared, probe)
    finally:
        unload_program(shared)
    fresh = load_program()
    try:
        want = do_step(fresh, probe)
    finally:
        unload_program(fresh)
    fails = []
    if got[:2] != want[:2]:   # the message (third item) names the module of the declaration
        fails.append((f"probe-outcome-depends-on-history/{probe['target']}/{want[0]}->{got[0]}",
                      {"after_history": got, "fresh_declaration": want, "history_outcomes": [o[0] for o in outs]}))
    if case.get("subprocess"):
        sub = probe_in_subprocess(probe)
        if sub is not None and sub != list(want[:2]) and sub != want[:2]:
            fails.append((f"probe-outcome-differs-in-a-fresh-interpreter/{probe['target']}", {"fresh_interpreter": sub, "fresh_declaration": want}))
    had_fail = any(o[0] in ("perr", "other") for o in outs)
    other_opts = any(s.get("options", 0) % len(C_OPTIONS) > 2 for s in history)
    return {"status": got[0], "fails": fails, "nt": had_fail or other_opts}


def probe_in_subprocess(probe):
    code = ("import sys, json; sys.path.insert(0, %r); sys.path.insert(0, %r); import warnings; warnings.simplefilter('ignore');"
            "from vf import core; core.setup_paths(); from vf.checks import c19;"
            "m = c19.load_program(); r = c19.do_step(m, json.loads(sys.argv[1])); print(json.dumps(list(r[:2])))") % (REPO, ROOT)
    env = dict(os.environ, PYTHONHASHSEED="0", VERIF_REPO=REPO)
    p = subprocess.run([sys.executable, "-B", "-c", code, json.dumps(probe)], capture_output=True, text=True, timeout=120, env=env, cwd=ROOT)
    if p.returncode != 0:
        return None
    try:
        r = json.loads(p.stdout.strip().splitlines()[-1])
    except Exception:
        return None
    return tuple(r) if isinstance(r, list) else r


def run_d(case):
    """order independence across fresh interpreters: every (target, input) of the fixed program is parsed in one process in the
    given order; the outcome of each must be the same whatever came before it (the other orders run in other fresh processes)"""
    orders = case.get("orders") or ["forward", "reverse"]
    steps = [{"target": t, "input": i, "options": 0} for t in TARGETS for i in range(len(C_INPUTS[t]))]

    def arrange(kind):
        if kind == "forward":
            return list(steps)
        if kind == "reverse":
            return list(reversed(steps))
        if kind.startswith("stride"):
            k = int(kind[6:])
            return [steps[(j * k) % len(steps)] for j in range(len(steps))] if len(steps) % k else list(steps)
        raise HarnessError("bad order")
    results = {}
    for kind in orders:
        seq = arrange(kind)
        code = ("import sys, json; sys.path.insert(0, %r); sys.path.insert(0, %r); import warnings; warnings.simplefilter('ignore');"
                "from vf import core; core.setup_paths(); from vf.checks import c19;"
                "m = c19.load_program(); print(json.dumps([list(c19.do_step(m, s)[:2]) for s in json.loads(sys.argv[1])]))") % (REPO, ROOT)
        env = dict(os.environ, PYTHONHASHSEED="0", VERIF_REPO=REPO)
        p = subprocess.run([sys.executable, "-B", "-c", code, json.dumps(seq)], capture_output=True, text=True, timeout=300, env=env, cwd=ROOT)
        if p.returncode != 0:
            raise HarnessError("order run failed: " + p.stderr[-300:])
        outs = json.loads(p.stdout.strip().splitlines()[-1])
        results[kind] = {(s["target"], s["input"]): o for s, o in zip(seq, outs)}
    fails = []
    base = results[orders[0]]
    for kind in orders[1:]:
        for key, o in results[kind].items():
            if o != base[key]:
                fails.append((f"outcome-depends-on-what-was-parsed-before/{key[0]}", {"input": C_INPUTS[key[0]][key[1]], orders[0]: base[key], kind: o}))
                break
    return {"status": "ok", "fails": fails[:3], "nt": True}


def c_cases(thorough):
    step = st.fixed_dictionaries({"target": st.sampled_from(TARGETS), "input": st.integers(0, 9), "options": st.integers(0, len(C_OPTIONS) - 1)})
    return st.fixed_dictionaries({"part": st.just("c"), "history": st.lists(step, min_size=1, max_size=8), "probe": step,
                                  "subprocess": st.sampled_from([False] * 49 + [True]) if thorough else st.just(False)})


# -- dispatch ----------------------------------------------------------------------------------------------

# -- (e) one function, declared twice ---------------------------------------------------------------------

E_SRC = """
import utype
from typing import *

class Pos(int, utype.Rule):
    gt = 0

def f(a: Pos, b: List[int] = None):
    return [a, b]
"""
E_OPTIONS = [None, {"no_explicit_cast": True}, {"ignore_constraints": True}, {"collect_errors": True}, {"invalid_items": "exclude"}, {"no_data_loss": True}]
E_CALLS = [[3], ["3"], [-1], [{"t": "float", "v": "2.5"}], [1, {"t": "list", "v": [1, "x"]}], [1, {"t": "list", "v": ["2"]}], ["x", {"t": "list", "v": ["y"]}]]
_e_n = [0]


def run_e(case):
    """utype.parse(f, options=A) then utype.parse(f, options=B) on ONE module-level function: each wrapper behaves as if it were the
    only declaration of that function (reference: the same source in a module of its own, declared once with those options)"""
    import sys
    import types
    import utype
    from .. import entries
    from utype.parser import base as pbase
    first, second = case["first"], case["second"]
    mods = []

    def module():
        _e_n[0] += 1
        name = f"vf_c19_e{_e_n[0]}"
        m = types.ModuleType(name)
        sys.modules[name] = m
        exec(compile(E_SRC, name, "exec"), m.__dict__)
        mods.append(m)
        return m

    def wrap(m, o):
        opts = entries.make_options(o)
        return utype.parse(m.f, options=opts) if opts is not None else utype.parse(m.f)

    def sig_of(out):
        if out[0] == "ok":
            return ("ok", json.dumps(codec.encode(oracle.plain(out[1])), sort_keys=True, default=repr))
        return (out[0], sorted({type(e).__name__ for e in (getattr(out[1], "errors", None) or [out[1]])}) if len(out) > 1 and isinstance(out[1], BaseException) else None)
    try:
        m = module()
        g1 = wrap(m, first)
        g2 = wrap(m, second)
        ref1, ref2 = wrap(module(), first), wrap(module(), second)
        fails = []
        for call in E_CALLS:
            args = [codec.decode(a) for a in call]
            for tag, g, ref, o in (("second", g2, ref2, second), ("first", g1, ref1, first)):
                got, want = sig_of(oracle.outcome(g, *args)), sig_of(oracle.outcome(ref, *[codec.decode(a) for a in call]))
                if got != want:
                    fails.append((f"{tag}-declaration-of-one-function-behaves-differently-from-the-only-declaration/{'+'.join(sorted(o or {})) or 'no-options'}",
                                  {"first": first, "second": second, "call": call, "got": got, "alone": want}))
                    break
        return {"status": "ok", "fails": fails[:2], "nt": first != second}
    finally:
        for m in mods:
            for k in [k for k in pbase.__parsers__ if getattr(k, "__module__", None) == m.__name__]:
                pbase.__parsers__.pop(k, None)
            sys.modules.pop(m.__name__, None)


def run_case(case):
    try:
        part = case["part"]
    except (KeyError, TypeError):
        raise HarnessError("malformed case")
    try:
        if part == "a":
            try:
                return run_a(case)
            finally:
                dspec.cleanup()
        if part == "b":
            return run_b(case)
        if part == "d":
            return run_d(case)
        if part == "e":
            return run_e(case)
        if part == "c":
            return run_c(case)
    except (KeyError, IndexError) as e:
        raise HarnessError(f"malformed case {e}")
    raise HarnessError("bad part")


def judge(case):
    return run_case(case)["fails"]


def campaign(ctx):
    def body(case):
        r = run_case(case)
        ctx.label(f"{case['part']}_{r['status']}")
        if case["part"] == "a":
            if r["status"] in ("perr",) or r.get("changed"):
                ctx.nt(case)
                ctx.sample("a-" + r["status"], case)
        elif case["part"] == "b":
            ctx.label(f"b_form_{case['form']}")
            if r.get("nested"):
                ctx.nt(case)
                ctx.sample("b", case)
        else:
            if r.get("nt"):
                ctx.nt(case)
                ctx.sample(case["part"], case)
        ctx.fail_all(r["fails"], case)

    # (b) is a finite product: enumerate it completely (shard 0)
    if ctx.shard == 0:
        n = 0
        for form in FORMS:
            for base in (BASES if not form.startswith(("func", "param")) else ["schema"]):  # (keeping_factory: all bases)
                for dv in DEFAULTS:
                    ctx.ev()
                    n += 1
                    body({"part": "b", "form": form, "base": base, "default": dv})
        ctx.extra["b_cases"] = n
        ctx.extra["b_exhaustive"] = True
    # text inputs (JSON / literal spellings of nested containers) into unparametrised slots: enumerated completely
    if ctx.shard == 0:
        L = lambda o: {"k": "leaf", "o": o}
        holder = {"k": "data", "d": {"name": "H19", "base": "schema", "fields": [{"name": "tags", "type": L("list")}, {"name": "meta", "type": L("dict"), "f": {"plain_default": {"v": {"t": "dict", "v": []}}}}]}}
        slots = [L("list"), L("dict"), L("tuple"), {"k": "dict", "key": L("str"), "val": L("list")}, {"k": "list", "a": L("dict")}, {"k": "opt", "a": L("list"), "m": "annotate"}, holder]
        texts = ["[[1, 2], [3]]", '{"tags": ["a"], "meta": {"k": [1]}}', '{"a": {"b": [1]}}', '[{"x": [1]}]', "[[], [[]]]", "{'a': [1, 2]}", '[["a", {"b": []}]]']
        for spec in slots:
            for text in texts:
                for entry in ("transform", "schema", "param") if spec["k"] != "data" else ("transform", "schema"):
                    ctx.ev()
                    try:
                        body({"part": "a", "type": spec, "value": text, "options": {}, "entry": entry})
                    except HarnessError:
                        ctx.label("grid_case_refused")
    # (d) order independence across fresh interpreters (state kept in the library itself is invisible to a re-declaration)
    if ctx.shard == 1 % ctx.nshards:
        ctx.ev()
        for first in E_OPTIONS:
            for second in E_OPTIONS:
                ctx.ev()
                body({"part": "e", "first": first, "second": second})
        ctx.extra["e_cases"] = len(E_OPTIONS) ** 2
        body({"part": "d", "orders": ["forward", "reverse", "stride7"] + (["stride11", "stride5"] if ctx.thorough else [])})
        ctx.extra["d_order_runs"] = 3 if not ctx.thorough else 5
    ctx.run_given(st.one_of(a_cases(ctx.thorough), a_cases(ctx.thorough), c_cases(ctx.thorough)), body, max_examples=ctx.n(1000, 12000))
