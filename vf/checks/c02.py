"""C02 - validation is exact on well-typed values and agrees with isinstance.

Generated: (constrained type with strict constraints, value that already has the source type).
Oracle: the documented meaning of every constraint (vf/constraints.py, written from docs/en/references/rule.md,
not in the shape of the implementation):  T(v) succeeds  <=>  every constraint holds;  result == v;
isinstance(v, T) gives the same verdict.  Plus: a `contains` campaign (count of matching elements against
min/max_contains) and an exhaustive grid of int range constraints.
"""
import itertools
import math

from hypothesis import strategies as st

from .. import codec, constraints, gen, oracle, tspec
from ..core import HarnessError
from .c01 import decl_errors

ID = "C02"
RULE = ("(constraint set, value of exactly the source type); values are drawn on and next to every declared bound "
        "(bound, bound+-1, nextafter, +-0.01 for Decimal, +-1 day/us, length limit +-1, regex near-misses, digit-count "
        "carries) mixed with general values of the type; non-trivial = the value came from the boundary pool of its "
        "constraint set, or the verdict is a rejection; distinct = hash of (type spec, value). "
        "Exhaustive part: all (gt|ge|-, lt|le|-) over bounds in [-3,3] x all ints in [-6,6]; contains part: element "
        "lists x (contained type, min_contains, max_contains)")
ASSUMPTIONS = [
    "documented senses: gt/ge/lt/le = Python comparison (NaN fails); length on numbers = len(str(v)); regex = full match of str(v); "
    "const = equal and same type (tolerance pairs int/float/Decimal); enum = membership; max_digits/decimal_places = digit counts "
    "of the fixed-point rendering without sign (leading integer zero not counted, trailing zeros of a Decimal counted); "
    "multiple_of = exact rational divisibility; unique_items = no two elements identical-or-equal",
    "silent (counted as unspecified): digit constraints on non-finite numbers and on zeros with positive exponent; multiple_of "
    "on Decimal magnitudes >= 1e25 / < 1e-25 or Decimal%float; int x float beyond 2**53",
    "contains: an element 'matches' iff the contained type alone accepts it (utype's own element-level verdict; the counting and "
    "the min/max comparison are what is judged)",
    "result == input: numeric equality for numbers (a Decimal may gain trailing zeros under decimal_places, const returns the constant), "
    "type-aware structural equality otherwise",
]
SHARDS = {"quick": 4, "thorough": 16}

NUMERIC = ("int", "float", "decimal")


def _same(r, v, o):
    if o in NUMERIC:
        import decimal
        if isinstance(r, decimal.Decimal) and isinstance(v, decimal.Decimal) and (r.is_nan() or v.is_nan()):
            return r.is_nan() and v.is_nan()
        try:
            if r == v:
                return True
            return r != r and v != v
        except Exception:
            return False
    return oracle.equal(r, v)


def run_case(case):
    try:
        spec, vs = case["type"], case["value"]
    except (KeyError, TypeError):
        raise HarnessError("malformed case")
    tspec.validate(spec)
    if spec["k"] != "con" or spec.get("lax"):
        raise HarnessError("C02 wants a strict constrained spec")
    try:
        T = tspec.build(spec)
    except HarnessError:
        raise
    except decl_errors():
        return {"status": "discarded", "fails": []}
    o = spec["o"]
    v = codec.decode(vs)
    if not isinstance(v, tspec.ORIGINS[o]) or (o == "int" and isinstance(v, bool)):
        raise HarnessError("value is not of the source type")
    cons = tspec.decode_constraints(spec.get("c", {}))
    want = constraints.all_hold(cons, v)
    contains = spec.get("contains")
    matched = None
    if contains is not None:
        want, matched = _contains_verdict(spec, v, want)
    out = oracle.outcome(T, codec.decode(vs))
    if out[0] in ("other", "hang"):
        return {"status": "other", "fails": [], "want": want}
    got = out[0] == "ok"
    fails = []
    det = {"constraints": spec.get("c"), "value": vs, "expected_accept": want}
    if contains is not None:
        det["matching_elements"] = matched
    if want is None:
        return {"status": "unspecified", "fails": [], "want": None, "got": got}
    if got and not want:
        name = tspec._first_violated(cons, v) if contains is None or constraints.all_hold(cons, v) is False else "contains"
        fails.append((f"accepts-invalid/{o}/{name}", dict(det, result=codec.encode(out[1]))))
    elif want and not got:
        e = out[1]
        name = getattr(e, "constraint", None) or "type"
        fails.append((f"rejects-valid/{o}/{name}", dict(det, error=str(e)[:200])))
    elif got and not _same(out[1], v, o):
        fails.append((f"altered/{o}/{'+'.join(sorted(spec.get('c', {})))}", dict(det, result=codec.encode(out[1]))))
    try:
        inst = isinstance(codec.decode(vs), T)
    except Exception as e:  # isinstance must not raise either
        inst = f"raised {type(e).__name__}"
    if inst is not want and inst is not None:
        fails.append((f"isinstance-disagrees/{o}/{'accepts' if inst is True else 'rejects' if inst is False else 'raises'}",
                      dict(det, isinstance=inst)))
    return {"status": "accepted" if got else "rejected", "fails": fails, "want": want, "got": got}


def _contains_verdict(spec, v, base):
    """documented: the data must contain at least 1 matching element, at most max_contains, at least min_contains"""
    CT = tspec.build(spec["contains"])
    n = 0
    for e in v:
        r = oracle.outcome(CT, e)
        if r[0] == "ok":
            n += 1
        elif r[0] != "perr":
            return None, None
    lo, hi = spec.get("min_contains"), spec.get("max_contains")
    ok = n >= 1 and (not lo or n >= lo) and (not hi or n <= hi)
    if base is False:
        return False, n
    if base is None:
        return (None if ok else False), n
    return ok, n


def judge_untyped(case):
    """const / enum on a Rule without a source type: verdict by the documented comparison, accepted values come back unchanged"""
    from utype.parser.rule import Rule
    cname, cv, vs = case["constraint"], case["bound"], case["value"]
    if cname not in ("const", "enum"):
        raise HarnessError("bad untyped case")
    bound = codec.decode(cv) if cname == "const" else [codec.decode(x) for x in cv]
    try:
        T = Rule.annotate(None, constraints={cname: bound})
    except decl_errors():
        return []
    v = codec.decode(vs)
    want = constraints.holds(cname, bound, v)
    out = oracle.outcome(T, v)
    if out[0] not in ("ok", "perr") or want is None:
        return []
    det = {"constraint": cname, "bound": codec.encode(bound), "value": vs, "outcome": out[0]}
    if (out[0] == "ok") != bool(want):
        return [(f"untyped-{cname}/{'accepts-invalid' if out[0] == 'ok' else 'rejects-valid'}/{'falsy-bound' if not (bound if cname == 'const' else all(bound)) else 'bound'}", det)]
    return []


def judge(case):
    if case.get("part") == "untyped":
        return judge_untyped(case)
    return run_case(case)["fails"]


CONTAINED = [
    {"k": "con", "o": "int", "c": {"const": 1}},
    {"k": "con", "o": "int", "c": {"gt": 0}},
    {"k": "con", "o": "str", "c": {"regex": "[a-z]+"}},
    {"k": "con", "o": "str", "c": {"const": "a"}},
]


@st.composite
def contains_cases(draw):
    o = draw(st.sampled_from(["list", "tuple"]))
    ct = draw(st.sampled_from(CONTAINED))
    spec = {"k": "con", "o": o, "c": {}, "contains": ct, "m": draw(st.sampled_from(["annotate", "class"]))}
    lo = draw(st.sampled_from([None, None, 1, 2, 3]))
    hi = draw(st.sampled_from([None, None, 1, 2, 3, 4]))
    if lo and hi and hi < lo:
        lo, hi = hi, lo
    if lo:
        spec["min_contains"] = lo
    if hi:
        spec["max_contains"] = hi
    if draw(st.booleans()):
        spec["c"]["max_length"] = draw(st.integers(2, 5))
    pool = st.sampled_from([1, 1, 1, 2, -1, 0, "a", "a", "b", "ab", "A", "", "1", True, None,
                            {"t": "float", "v": "1.0"}, {"t": "float", "v": "1.5"}, {"t": "decimal", "v": "1"}])
    vals = draw(st.lists(pool, max_size=6))
    return {"type": spec, "value": {"t": o, "v": vals}, "part": "contains"}


def case_strategy():
    def with_value(spec):
        pool = [x for x in gen.boundary_values(spec) if gen._exact_type(x, spec["o"])]
        return st.fixed_dictionaries({"type": st.just(spec), "value": gen.welltyped(spec)})
    main = gen.constrained(lax_ok=False).flatmap(with_value)
    nums = gen.constrained(lax_ok=False, origins=["int", "float", "decimal", "decimal"]).flatmap(with_value)
    strs = gen.constrained(lax_ok=False, origins=["str", "str", "bytes"]).flatmap(with_value)
    return st.one_of(main, main, main, nums, nums, nums, strs, strs, contains_cases())


def grid_cases():
    lows = [None] + [(k, b) for k in ("gt", "ge") for b in range(-3, 4)]
    highs = [None] + [(k, b) for k in ("lt", "le") for b in range(-3, 4)]
    for lo, hi in itertools.product(lows, highs):
        if lo is None and hi is None:
            continue
        c = {}
        if lo:
            c[lo[0]] = lo[1]
        if hi:
            c[hi[0]] = hi[1]
        yield c


def campaign(ctx):
    def body(case):
        r = run_case(case)
        s = r["status"]
        ctx.label(f"status_{s}")
        spec = case["type"]
        ctx.label(f"origin_{spec['o']}")
        for name in spec.get("c", {}):
            ctx.label(f"constraint_{name}")
            if s in ("accepted", "rejected"):
                ctx.label(f"verdict_{name}_{s}")
        if case.get("part") == "contains":
            ctx.label("part_contains")
        if s in ("accepted", "rejected"):
            on_boundary = case.get("part") == "contains" or any(
                oracle.equal(codec.decode(x), codec.decode(case["value"])) for x in gen.boundary_values(spec)
                if gen._exact_type(x, spec["o"]))
            if on_boundary:
                ctx.label("on_boundary")
            if on_boundary or s == "rejected":
                ctx.nt(case)
                ctx.sample(s, case)
        ctx.fail_all(r["fails"], case)

    ctx.run_given(case_strategy(), body, max_examples=ctx.n(2000, 30000))

    # exhaustive int grid (every shard would repeat it: shard 0 only)
    if ctx.shard == 0:
        n = 0
        for c in grid_cases():
            spec = {"k": "con", "o": "int", "c": c, "m": "annotate"}
            for v in range(-6, 7):
                case = {"type": spec, "value": v, "part": "grid"}
                r = run_case(case)
                if r["status"] == "discarded":
                    ctx.label("grid_discarded_declaration")
                    break
                ctx.ev()
                n += 1
                ctx.nt(case)
                ctx.fail_all(r["fails"], case)
        ctx.label("grid_cases", n)
        ctx.extra["int_grid_exhaustive"] = True
        ctx.extra["int_grid_cases"] = n
        # const / enum on a rule WITHOUT a source type (nothing is converted: the value is compared as given), falsy constants included
        pool = [None, 0, False, "", 1, True, "a", {"t": "float", "v": "1.0"}, {"t": "float", "v": "0.0"}, 5, {"t": "list", "v": []}, {"t": "list", "v": [1]}]
        for cname, cvals in (("const", [None, 0, False, "", 1, "a", {"t": "list", "v": []}]), ("enum", [[None], [0, "a"], [False], ["", 1]])):
            for cv in cvals:
                for v in pool:
                    case = {"part": "untyped", "constraint": cname, "bound": cv, "value": v}
                    ctx.ev()
                    ctx.nt(case)
                    ctx.fail_all(judge_untyped(case), case)
        ctx.extra["untyped_const_enum_grid_exhaustive"] = True
