"""C03 - parsing is idempotent; lax constraints converge in one step.

Generated: (type spec incl. lax constraints / logical combinations / data classes, value, conversion options, entry).
Oracle (round trip): r1 = parse(x) accepted  =>  parse(r1) is accepted and equal(r1, parse(r1)).
Lax part: for every lax constraint of the declared type, on exact domains (int, Decimal, str, bytes, sequences)
r1 satisfies the strict form of the same constraint (vf/constraints.py).
"""
from hypothesis import strategies as st

from .. import codec, constraints, dspec, entries, gen, oracle, tspec
from ..core import HarnessError
from .c01 import decl_errors

ID = "C03"
RULE = ("(type spec, value, options, entry); only accepted first parses are judged; non-trivial = the first parse changed the "
        "value (not equal(x, r1)) or the type contains a union/xor or a lax constraint; distinct = hash of the case. "
        "Lax campaign: single lax constraint x bound x inputs aimed beyond the bound (over-long, beyond le/ge, non-multiples "
        "of both signs, 99.99-style carries, duplicates)")
ASSUMPTIONS = [
    "the second parse uses the same declared type, options and entry point as the first",
    "equality = vf/oracle.py:equal (type-aware, NaN-aware, data classes by class + key view + attribute view)",
    "strict form after a lax constraint is asserted on int, Decimal, str, bytes, list, tuple only (exact domains); floats only by idempotence",
    "declarations refused at declaration time are discarded; non-ParseError exceptions belong to C04",
]
SHARDS = {"quick": 4, "thorough": 16}
ENTRY_POOL = ["call", "transform", "schema", "dataclass", "return", "param"]
EXACT = ("int", "decimal", "str", "bytes", "list", "tuple")

OPTION_SETS = st.fixed_dictionaries({}, optional={
    "no_explicit_cast": st.sampled_from([True, True, False]),      # (False spelled out: the same as not giving the flag)
    "no_data_loss": st.sampled_from([True, True, False]),
    "invalid_items": st.just("exclude"),
    "invalid_values": st.just("exclude"),
    "invalid_keys": st.just("exclude"),
    "collect_errors": st.just(True),
})


def lax_nodes(spec, out=None):
    out = [] if out is None else out
    if spec.get("k") == "con" and spec.get("lax"):
        out.append(spec)
    for key in ("a", "key", "val"):
        sub = spec.get(key)
        if isinstance(sub, dict):
            lax_nodes(sub, out)
        elif isinstance(sub, list):
            for x in sub:
                if isinstance(x, dict):
                    lax_nodes(x, out)
    return out


def run_case(case):
    try:
        spec, vs, opts, entry = case["type"], case["value"], case.get("options") or {}, case["entry"]
    except (KeyError, TypeError):
        raise HarnessError("malformed case")
    if entry not in ENTRY_POOL:
        raise HarnessError("bad entry")
    tspec.validate(spec)
    try:
        T = tspec.build(spec)
        fn = entries.build_entry(entry, T, opts)
    except HarnessError:
        raise
    except decl_errors():
        return {"status": "discarded", "fails": []}
    finally:
        pass
    try:
        x = codec.decode(vs)
        o1 = oracle.outcome(fn, x)
        if o1[0] != "ok":
            return {"status": "rejected" if o1[0] == "perr" else "other", "fails": []}
        r1 = o1[1]
        if r1 is entries.ABSENT:
            return {"status": "absent", "fails": []}
        fails = []
        changed = True if _one_shot(x) else not oracle.equal(r1, codec.decode(vs))
        o2 = oracle.outcome(fn, r1)
        shape = _shape(spec)
        det = {"first": codec.encode(r1), "entry": entry, "has_lax": bool(lax_nodes(spec)),
               "has_union": tspec.has_kind(spec, ("union", "opt")), "has_xor": tspec.has_kind(spec, ("xor",))}
        diag = diagnose(spec, r1)
        if diag:
            # the first output already breaks the declared constrained type: root cause is the lax validator
            for sig, d in diag:
                fails.append((sig, dict(det, **d)))
        elif o2[0] == "perr":
            msg = str(o2[1])
            if "More than 1 conditions" in msg:
                fails.append(("reparse-rejected/xor-output-accepted-by-several-arguments", dict(det, error=msg[:200])))
            else:
                fails.append((f"reparse-rejected/{shape}", dict(det, error=msg[:200])))
        elif o2[0] == "ok":
            r2 = o2[1]
            if r2 is entries.ABSENT or not oracle.equal(_debool(r1), _debool(r2)):
                if r2 is not entries.ABSENT and exact_member_changed(spec, r1, r2):
                    # a value that has exactly the type of a union argument must pass unchanged
                    fails.append((f"reparse-differs/union-exact-member-changed/{shape}", dict(det, second=codec.encode(r2), exact_member=True)))
                else:
                    fails.append((f"reparse-differs/{shape}", dict(det, second=codec.encode(r2), exact_member=False)))
        return {"status": "ok", "fails": fails, "changed": changed}
    finally:
        dspec.cleanup()


def _debool(x):
    """True/1 and False/0 count as equal values here (Python equality); containers rebuilt, instances untouched"""
    if isinstance(x, bool):
        return int(x)
    if type(x) in (list, tuple):
        return type(x)(_debool(e) for e in x)
    if type(x) in (set, frozenset):
        return type(x)(_debool(e) for e in x)
    if type(x) is dict:
        return {_debool(k): _debool(v) for k, v in x.items()}
    return x


def _member_classes(spec):
    out = []
    for a in (spec["a"] if spec["k"] in ("union",) else [spec["a"], {"k": "leaf", "o": "none"}]):
        if a["k"] == "leaf":
            out.append(tspec.ORIGINS[a["o"]])
        elif a["k"] == "enum":
            out.append(codec.ENUMS[a["e"]])
    return out


_UNRELATED = {"str", "int", "list", "dict", "bytes"}     # no conversion between two of these is implicit: each needs an explicit cast


def _strict_member_keeps(spec, r1):
    """the union's arguments are plain / constrained types over pairwise different, unrelated source types, and r1 has exactly the
    source type of a CONSTRAINED argument whose strict constraints it satisfies: the strict stage of the union hands r1 to that
    argument unchanged (no other argument takes it without an explicit cast), whatever conversion flags the caller sets"""
    from .. import constraints
    args = spec["a"] if spec["k"] == "union" else [spec["a"]]
    if any(a["k"] not in ("leaf", "con") or a.get("o") not in _UNRELATED or a.get("lax") or a.get("contains") for a in args):
        return False
    if len({a["o"] for a in args}) != len(args):
        return False
    for a in args:
        if a["k"] == "con" and type(r1) is tspec.ORIGINS[a["o"]]:
            return all(constraints.holds(n, codec.decode(b) if isinstance(b, dict) else b, r1) is True for n, b in (a.get("c") or {}).items())
    return False


def exact_member_changed(spec, r1, r2, depth=0):
    """is there a union node at which the first output has exactly the type of a plain argument and
    nevertheless changed on re-parse?  (walks spec, r1 and r2 in parallel)"""
    if depth > 6:
        return False
    k = spec["k"]
    try:
        if k in ("union", "opt"):
            if type(r1) in _member_classes(spec) and not oracle.equal(_debool(r1), _debool(r2)):
                return True
            if _strict_member_keeps(spec, r1) and not oracle.equal(_debool(r1), _debool(r2)):
                return True
            return False
        if type(r1) is not type(r2):
            return False
        if k in ("list", "tuplev") and len(r1) == len(r2):
            return any(exact_member_changed(spec["a"], a, b, depth + 1) for a, b in zip(r1, r2))
        if k == "tuple" and len(r1) == len(r2) == len(spec["a"]):
            return any(exact_member_changed(s_, a, b, depth + 1) for s_, a, b in zip(spec["a"], r1, r2))
        if k == "dict" and list(r1) == list(r2):
            return any(exact_member_changed(spec["val"], r1[x], r2[x], depth + 1) for x in r1)
    except Exception:
        return False
    return False


def _nonfinite(v):
    import decimal
    import math
    if isinstance(v, float):
        return not math.isfinite(v)
    if isinstance(v, decimal.Decimal):
        return not v.is_finite()
    return False


def diagnose(spec, r, depth=0):
    """walk the declared type and the first output in parallel; report constrained nodes with lax constraints whose
    output value (a) is not an instance of the origin, (b) violates the strict form of a lax constraint on an exact
    domain, (c) violates another, strict constraint of the same node."""
    out = []
    if depth > 6 or r is None:
        return out
    k = spec["k"]
    if k == "con":
        if spec.get("lax"):
            o = spec["o"]
            if not isinstance(r, tspec.ORIGINS[o]):
                out.append((f"lax-output-wrong-type/{o}/{'+'.join(sorted(spec['lax']))}", {"node": spec, "value_type": type(r).__name__}))
                return out
            cons = tspec.decode_constraints(spec["c"])
            if "const" in cons:
                cons = {"const": cons["const"]}
            elif "enum" in cons:
                cons = {"enum": cons["enum"]}
            cur = r
            for name in constraints.ORDER:
                if name not in cons:
                    continue
                if name in spec["lax"] and o not in EXACT:
                    continue
                if _nonfinite(cur):
                    continue   # best effort cannot repair NaN / infinity: unspecified
                if constraints.holds(name, cons[name], cur) is False:
                    later = [x for x in constraints.ORDER[constraints.ORDER.index(name) + 1:] if x in spec["lax"] and x in cons]
                    if later:
                        # validators run once, in the declared order: a later lax transformation broke what was checked earlier
                        out.append((f"lax-later-transform-breaks-earlier-constraint/{o}/{name}/after:{'+'.join(later)}",
                                    {"node": spec, "constraint": name, "later_lax": later}))
                    elif name in spec["lax"]:
                        out.append((f"lax-output-violates-strict-form/{o}/{name}", {"node": spec, "constraint": name}))
                    else:
                        out.append((f"strict-constraint-violated-next-to-lax/{o}/{name}", {"node": spec, "constraint": name}))
                    return out
                # no padding of decimal places here: the strict form is evaluated on the output value itself
            # a strict max_digits is checked by the library on the value with its decimal places completed; a lax
            # transformation that runs in between (multiple_of, ge/le substitution) can drop the completed places again
            import decimal
            if isinstance(r, decimal.Decimal) and "decimal_places" in cons and "max_digits" in cons and "max_digits" not in spec["lax"] \
                    and not _nonfinite(r):
                padded = constraints.pad_decimal(r, cons["decimal_places"])
                if constraints.holds("decimal_places", cons["decimal_places"], r) and constraints.holds("max_digits", cons["max_digits"], padded) is False:
                    out.append((f"lax-output-fails-strict-max_digits-once-decimal-places-are-completed/{o}/lax:{'+'.join(sorted(spec['lax']))}",
                                {"node": spec, "constraint": "max_digits"}))
        return out
    try:
        if k in tspec.SEQ_KINDS and isinstance(r, (list, tuple, set, frozenset)):
            for e in r:
                out += diagnose(spec["a"], e, depth + 1)
        elif k == "tuple" and isinstance(r, tuple):
            for a, e in zip(spec["a"], r):
                out += diagnose(a, e, depth + 1)
        elif k == "dict" and isinstance(r, dict):
            for kk, vv in r.items():
                out += diagnose(spec["key"], kk, depth + 1)
                out += diagnose(spec["val"], vv, depth + 1)
        elif k == "opt":
            out += diagnose(spec["a"], r, depth + 1)
        elif k in ("union", "xor", "and"):
            # a lax node among the arguments produced r (same origin, diagnosis non-empty) and no other argument explains r
            found = []
            for i, a in enumerate(spec["a"]):
                if a["k"] == "not":
                    continue
                dg = diagnose(a, r, depth + 1)
                if dg:
                    found.append((i, dg))
            if found:
                bad = {i for i, _ in found}
                others = [a for i, a in enumerate(spec["a"]) if i not in bad and a["k"] != "not"]
                if not any(tspec.conforms(r, a) for a in others):
                    out += found[0][1]
    except Exception:
        return out
    return out[:1]


def _one_shot(x):
    import types
    return isinstance(x, types.GeneratorType) or type(x).__name__.endswith("iterator")


def _shape(spec):
    """coarse root-cause key: kinds on the path that matter for re-parsing"""
    ks = []

    def walk(s):
        k = s["k"]
        if k == "con":
            ks.append("lax:" + "+".join(sorted(s["lax"])) + "@" + s["o"] if s.get("lax") else "con")
        elif k in ("union", "xor", "and", "not", "opt", "data", "lit", "enum"):
            ks.append(k)
        for key in ("a", "key", "val"):
            sub = s.get(key)
            if isinstance(sub, dict):
                walk(sub)
            elif isinstance(sub, list):
                for y in sub:
                    if isinstance(y, dict):
                        walk(y)
    walk(spec)
    return ",".join(sorted(set(ks))) or "plain"


def judge(case):
    return run_case(case)["fails"]


# -- lax campaign -----------------------------------------------------------------------------------

@st.composite
def lax_cases(draw):
    o = draw(st.sampled_from(["int", "int", "decimal", "decimal", "float", "str", "bytes", "list", "tuple"]))
    c = {}
    if o in ("int", "float", "decimal"):
        name = draw(st.sampled_from(["ge", "le", "multiple_of", "max_digits", "decimal_places", "const", "enum", "max_length", "length"]
                                    if o != "int" else ["ge", "le", "multiple_of", "max_digits", "const", "enum", "max_length"]))
        mk = {"int": gen._int_spec, "float": lambda i: {"t": "float", "v": repr(float(i))},
              "decimal": lambda i: {"t": "decimal", "v": str(i)}}[o]
        if name in ("ge", "le"):
            c[name] = mk(draw(st.integers(-10, 10)))
        elif name == "multiple_of":
            c[name] = draw(st.sampled_from([2, 3, 5, 7, 10, 100] + ([{"t": "float", "v": "0.5"}, {"t": "float", "v": "0.1"}] if o == "float" else [])))
        elif name == "max_digits":
            c[name] = draw(st.integers(1, 5))
        elif name == "decimal_places":
            c[name] = draw(st.integers(0, 3))
        elif name == "const":
            c[name] = mk(draw(st.integers(-3, 3)))
        elif name == "enum":
            c[name] = [mk(i) for i in draw(st.lists(st.integers(-3, 3), min_size=1, max_size=3, unique=True))]
            if o == "int" and draw(st.integers(0, 2)) == 0:
                c[name] = {"enumcls": draw(st.sampled_from(["Num", "Plain"]))}    # the range given as an Enum class
        else:
            c[name] = draw(st.integers(1, 4))
        if name in ("max_digits",) and o != "int" and draw(st.booleans()):
            dp = draw(st.integers(0, c[name]))
            c["decimal_places"] = dp
        pool = [st.integers(-1500, 1500).map(lambda i: {"t": "decimal", "v": str(i / 100)}),
                st.integers(-30, 30), st.integers(-150, 150).map(lambda i: {"t": "float", "v": repr(i / 8)}),
                st.sampled_from(["99.99", "9.995", "0.999", "99.5", "-99.99", "999.9", "0.05", "1E+3", "12E+2", "9.99E+3", "0.0049", "100", "1.50"]
                                ).map(lambda s: {"t": "decimal", "v": s}),
                st.sampled_from(["99.99", "9.995", "-0.5", "2.5", "1e16", "0.045"]).map(lambda s: {"t": "float", "v": s}),
                st.integers(-1000, 1000).map(str), gen.ints]
        vals = st.one_of(*pool)
    elif o in ("str", "bytes"):
        name = draw(st.sampled_from(["max_length", "length", "const", "enum"]))
        if name in ("max_length", "length"):
            c[name] = draw(st.integers(0 if name == "length" else 1, 4))
        elif name == "const":
            c[name] = "ab" if o == "str" else {"t": "bytes", "v": "6162"}
        else:
            c[name] = ["a", "bc"] if o == "str" else [{"t": "bytes", "v": "61"}, {"t": "bytes", "v": "6263"}]
            if o == "str" and draw(st.integers(0, 2)) == 0:
                c[name] = {"enumcls": draw(st.sampled_from(["Color", "Plain"]))}
        vals = st.one_of(st.text(alphabet="abcé1", max_size=7), st.integers(-99999, 99999),
                         st.binary(max_size=6).map(lambda b: {"t": "bytes", "v": b.hex()}),
                         st.sampled_from(["é" * 3, "ab", "a", "bc", ""]))
    else:
        name = draw(st.sampled_from(["max_length", "length", "unique_items"]))
        if name == "unique_items":
            c[name] = True
        else:
            c[name] = draw(st.integers(0 if name == "length" else 1, 3))
        el = st.one_of(st.integers(-2, 2), st.sampled_from(["a", "1", True, None, {"t": "float", "v": "1.0"}, {"t": "list", "v": [1]},
                                                           {"t": "list", "v": [1, 2]}, {"t": "dict", "v": [["id", 1]]}, {"t": "tuple", "v": [1]},
                                                           {"t": "set", "v": [1]}, {"t": "float", "v": "nan"}]))
        # a small pool sampled with repetition, so that duplicates (also of unhashable elements) are the rule
        pool = draw(st.lists(el, min_size=1, max_size=3))
        vals = st.tuples(st.lists(st.sampled_from(pool), max_size=6), st.sampled_from(["list", "tuple"])).map(lambda t: {"t": t[1], "v": t[0]})
    lax = [name]
    if "decimal_places" in c and name != "decimal_places" and draw(st.booleans()):
        lax.append("decimal_places")
    spec = {"k": "con", "o": o, "c": c, "lax": lax, "m": draw(st.sampled_from(["annotate", "class"]))}
    return {"type": spec, "value": draw(vals), "options": {}, "entry": draw(st.sampled_from(["call", "schema", "return"])), "part": "lax"}


@st.composite
def collision_cases(draw):
    """a sized set with an item type, fed members that are different before conversion and equal after it"""
    a = draw(st.sampled_from([{"k": "leaf", "o": "int"}, {"k": "leaf", "o": "str"}, {"k": "leaf", "o": "float"}]))
    n = draw(st.integers(1, 3))
    cname = draw(st.sampled_from(["min_length", "min_length", "length", "max_length"]))
    spec = {"k": "con", "o": draw(st.sampled_from(["set", "set", "list"])), "c": {cname: n}, "args": [a], "m": "annotate"}
    if cname in ("length", "max_length") and draw(st.booleans()):
        spec["lax"] = [cname]
    pool = st.sampled_from([1, "1", {"t": "float", "v": "1.0"}, {"t": "float", "v": "1.5"}, True, " 1", 2, "2", {"t": "float", "v": "2.0"}, {"t": "bytes", "v": "31"}])
    vals = draw(st.lists(pool, min_size=max(n - 1, 0), max_size=n + 2))
    return {"type": spec, "value": {"t": draw(st.sampled_from(["list", "tuple"])), "v": vals}, "options": draw(OPTION_SETS),
            "entry": draw(st.sampled_from(["call", "schema", "return", "param"]))}


def case_strategy(thorough):
    data = dspec.decl_specs(rich=False, bases=("schema", "dataclass"), max_fields=3).map(lambda d: {"k": "data", "d": d})
    ts = gen.type_specs(max_leaves=5 if thorough else 3, lax_ok=True, data=data, with_args=True)
    sized = gen.constrained(lax_ok=True, origins=["list", "set", "set"], with_args=True)
    ts = st.one_of(gen.leaf, gen.constrained(lax_ok=True, with_args=True), gen.constrained(lax_ok=True), sized, gen.enum_t, gen.literal_t, ts, ts, ts, ts)

    def with_value(spec):
        vals = st.one_of(gen.conforming(spec), gen.conforming(spec), gen.conforming(spec), gen.hostile(max_leaves=6))
        return st.fixed_dictionaries({"type": st.just(spec), "value": vals, "options": OPTION_SETS,
                                      "entry": st.sampled_from(ENTRY_POOL)})
    main = ts.flatmap(with_value)
    return st.one_of(main, main, main, main, main, main, lax_cases(), lax_cases(), lax_cases(), collision_cases())


def campaign(ctx):
    def body(case):
        r = run_case(case)
        s = r["status"]
        ctx.label(f"status_{s}")
        if case.get("part") == "lax":
            ctx.label("part_lax")
            ctx.label(f"lax_{case['type']['lax'][0]}_{s}")
        if s == "ok":
            spec = case["type"]
            if r["changed"]:
                ctx.label("first_parse_changed_value")
            if r["changed"] or tspec.has_kind(spec, ("union", "xor", "opt")) or lax_nodes(spec):
                ctx.nt(case)
                ctx.sample("lax" if case.get("part") == "lax" else "roundtrip", case)
        ctx.fail_all(r["fails"], case)
    ctx.run_given(case_strategy(ctx.thorough), body, max_examples=ctx.n(1500, 20000))
    # sized containers with an item type x members that are different before item conversion and equal after it:
    # a grid enumerated completely on every run (seed independent)
    F = lambda v: {"t": "float", "v": v}
    members = [[1, "1"], [1, F("1.5")], ["1", 1, 2], [1, True], ["10", F("10.2"), 3], [1, 2], [1, 2, 3], ["a", "b"], [F("1.0"), "1", 1, 2], [" 1", 1], [2, "2", F("2.0")]]
    idx = 0
    for origin in ("set", "list", "frozenset"):
        for a in ("int", "str", "float"):
            for cname in ("min_length", "length", "max_length"):
                for n in (1, 2, 3):
                    for lax in ((False, True) if cname != "min_length" else (False,)):
                        for vals in members:
                            idx += 1
                            if idx % ctx.nshards != ctx.shard:
                                continue
                            spec = {"k": "con", "o": origin, "c": {cname: n}, "args": [{"k": "leaf", "o": a}], "m": "annotate"}
                            if lax:
                                spec["lax"] = [cname]
                            ctx.ev()
                            try:
                                body({"type": spec, "value": {"t": "list" if idx % 2 else "tuple", "v": vals}, "options": {}, "entry": ("call", "schema", "return")[idx % 3]})
                            except HarnessError:
                                ctx.label("grid_case_not_buildable")
    ctx.extra["collision_grid_exhaustive"] = True
    # lax digit constraints x numbers whose rounding carries into a new digit: enumerated completely
    carry = ["9.5", "99.5", "99.95", "999.9", "-99.87", "9.96", "99.99", "0.96", "99.4", "100", "9.4999", "0.5", "0.05", "-9.5", "999.5", "9999.9", "1E+2", "95E-1", "0.995"]
    for o in ("decimal", "float"):
        for md in (1, 2, 3, 4):
            for dp in (None, 0, 1):
                for sp in carry:
                    idx += 1
                    if idx % ctx.nshards != ctx.shard:
                        continue
                    c = {"max_digits": md}
                    lax = ["max_digits"]
                    if dp is not None:
                        if dp > md:
                            continue
                        c["decimal_places"] = dp
                        lax.append("decimal_places")
                    ctx.ev()
                    v = {"t": "decimal", "v": sp} if o == "decimal" else {"t": "float", "v": repr(float(sp))}
                    try:
                        body({"type": {"k": "con", "o": o, "c": c, "lax": lax, "m": "annotate"}, "value": v, "options": {}, "entry": ("call", "schema")[idx % 2], "part": "lax"})
                    except HarnessError:
                        ctx.label("grid_case_not_buildable")
    # lax unique_items x sequences with duplicates among hashable, unhashable and equal-but-distinct items: enumerated completely
    dups = [[1, 1], [1, True], [1, {"t": "float", "v": "1.0"}], [{"t": "list", "v": [1]}, {"t": "list", "v": [1]}], [{"t": "dict", "v": [["a", 1]]}, {"t": "dict", "v": [["a", 1]]}],
            [{"t": "list", "v": [1]}, 2, {"t": "list", "v": [1]}], [{"t": "set", "v": [1]}, {"t": "set", "v": [1]}], [{"t": "list", "v": [1]}, {"t": "list", "v": [{"t": "float", "v": "1.0"}]}],
            [{"t": "tuple", "v": [{"t": "list", "v": []}]}, {"t": "tuple", "v": [{"t": "list", "v": []}]}], ["a", "b", "a"], [{"t": "list", "v": []}, {"t": "list", "v": []}, {"t": "list", "v": []}], [1, 2, 3]]
    for o in ("list", "tuple"):
        for extra in ({}, {"min_length": 1}, {"max_length": 2}):
            for items in dups:
                for wrap in ("list", "tuple"):
                    idx += 1
                    if idx % ctx.nshards != ctx.shard:
                        continue
                    ctx.ev()
                    try:
                        body({"type": {"k": "con", "o": o, "c": dict({"unique_items": True}, **extra), "lax": ["unique_items"], "m": "annotate"}, "value": {"t": wrap, "v": items},
                              "options": {}, "entry": ("call", "schema")[idx % 2], "part": "lax"})
                    except HarnessError:
                        ctx.label("grid_case_not_buildable")
    # unions whose earlier member could re-interpret a later member's output (the strict first stage prevents it), under every
    # spelling of the conversion flags - False spelled out included: enumerated completely
    L = lambda a: {"k": "list", "a": {"k": "leaf", "o": a}}
    unions = [[{"k": "leaf", "o": "int"}, L("int")], [{"k": "leaf", "o": "float"}, L("datetime")], [{"k": "leaf", "o": "str"}, L("str")], [{"k": "leaf", "o": "bool"}, L("int")],
              [{"k": "leaf", "o": "int"}, {"k": "dict", "key": {"k": "leaf", "o": "str"}, "val": {"k": "leaf", "o": "int"}}], [{"k": "leaf", "o": "date"}, L("date")]]
    inputs = ["[7]", "1,2", "[1]", {"t": "list", "v": [7]}, {"t": "list", "v": ["2020-01-01"]}, {"t": "list", "v": ["x"]}, {"t": "list", "v": [True]}, "7", 7, '{"a": 1}',
              {"t": "dict", "v": [["a", "1"]]}, {"t": "tuple", "v": [3]}, {"t": "list", "v": [{"t": "float", "v": "1.5"}]}]
    # (constrained arguments over unrelated source types: the output of one is never the other's to convert - under any single flag)
    C = lambda o, c: {"k": "con", "o": o, "c": c, "m": "annotate"}
    unions += [[C("str", {"max_length": 1}), C("int", {"ge": 0})], [C("str", {"regex": "[a-z]+"}), C("int", {"lt": 100})], [C("str", {"max_length": 2}), C("list", {"max_length": 3})]]
    inputs += ["07", "123", 12, "ab", {"t": "list", "v": [1, 2]}]
    flagsets = [{}, {"no_explicit_cast": False}, {"no_data_loss": False}, {"no_explicit_cast": False, "no_data_loss": False}, {"no_data_loss": True}, {"collect_errors": True, "no_explicit_cast": False},
                {"no_explicit_cast": True}]
    for args in unions:
        for order in (args, args[::-1]):
            for v in inputs:
                for fl in flagsets:
                    idx += 1
                    if idx % ctx.nshards != ctx.shard:
                        continue
                    ctx.ev()
                    case = {"type": {"k": "union", "a": list(order), "m": "annotate"}, "value": v, "options": dict(fl), "entry": ("call", "schema")[idx % 2]}
                    try:
                        body(case)
                        if fl and not any(fl.values()):
                            # flags spelled out as False mean "not given": the same input must behave exactly as with no flags at all
                            # (ordered unions are not idempotent in general - KF-C03-05 - but never BECAUSE of the spelling)
                            a = [f[0] for f in run_case(dict(case, options={}))["fails"]]
                            b = [f[0] for f in run_case(case)["fails"]]
                            if b and not a:
                                ctx.fail("not-idempotent-only-when-the-flags-are-spelled-out-as-false/" + b[0].split("/")[0], case, {"with_false_flags": b, "without_flags": a})
                    except HarnessError:
                        ctx.label("grid_case_not_buildable")
