"""C06 - the result does not depend on the field-lookup strategy.

Differential: every generated declaration (data class or function) is built twice, identical except
Options(data_first_search=True|False); the same input goes through both.
"""
from hypothesis import strategies as st

from .. import codec, dspec, oracle
from ..core import HarnessError
from .c01 import decl_errors

ID = "C06"
RULE = ("(declaration, class options, input mapping) run once per strategy; non-trivial = the input contains two accepted "
        "names of one field, a case variant or alias of a name, an extra key, omits an optional field that has a default, "
        "or feeds a no_input field; distinct = hash of (declaration, input)")
ASSUMPTIONS = [
    "same kind of failure = each strategy's fail-fast error (class, item) belongs to the other strategy's collected error set, "
    "and the two collected sets (collect_errors=True) are equal as sets of (class, item)",
    "declarations refused at declaration time are discarded",
]
SHARDS = {"quick": 4, "thorough": 16}


def kinds_of(e):
    from utype.utils.exceptions import CollectedParseError
    if isinstance(e, CollectedParseError):
        out = set()
        for x in e.errors:
            out |= kinds_of(x)
        return out
    item = getattr(e, "item", None)
    if type(e).__name__ == "DependenciesAbsenceError":
        item = tuple(sorted(getattr(e, "absence_dependencies", None) or ()))
    return {(type(e).__name__, item if isinstance(item, (str, int, tuple, type(None))) else repr(item))}


def items_of(kinds):
    out = []
    for cls_name, item in kinds:
        if isinstance(item, (tuple, list)):
            out += [str(x) for x in item]
        elif item is not None:
            out.append(item if isinstance(item, str) else str(item))
    return out


def diff_names(pa, pb):
    names = []
    for view in ("keys", "attrs"):
        da, db = pa.get(view) or {}, pb.get(view) or {}
        for k in list(da) + [k for k in db if k not in da]:
            if k not in da or k not in db or not oracle.equal(da[k], db[k]):
                if k not in names:
                    names.append(k)
    return names


def run_strategy(d, dfs, vs, collect):
    d2 = dict(d)
    o = dict(d.get("options") or {})
    o["data_first_search"] = dfs
    if collect:
        o["collect_errors"] = True
    d2["options"] = o
    cls = dspec.build_decl(d2)
    data = codec.decode(vs)
    return oracle.outcome(dspec.from_data(cls), data)


def run_case(case):
    try:
        d, vs = case["decl"], case["input"]
    except (KeyError, TypeError):
        raise HarnessError("malformed case")
    dspec.validate(d)
    from .c09 import _one_shot_spec
    if _one_shot_spec(vs):
        return {"status": "discarded", "fails": []}    # a one-shot iterator is consumed by whichever strategy reads it first
    try:
        a = run_strategy(d, True, vs, False)
        b = run_strategy(d, False, vs, False)
    except HarnessError:
        raise
    except decl_errors():
        return {"status": "discarded", "fails": []}
    finally:
        dspec.cleanup()
    fails = []
    for o in (a, b):
        if o[0] in ("other", "hang"):
            return {"status": "other", "fails": []}   # C04's subject
    if a[0] == "ok" and b[0] == "ok":
        if not oracle.equal(oracle.plain(a[1]), oracle.plain(b[1])):
            fails.append(("values-differ", {"data_first": oracle.short(oracle.plain(a[1])), "field_first": oracle.short(oracle.plain(b[1])),
                                            "involved": diff_names(oracle.plain(a[1]), oracle.plain(b[1]))}))
        return {"status": "ok", "fails": fails}
    if a[0] != b[0]:
        failing, which = (a, "data-first") if a[0] == "perr" else (b, "field-first")
        k = sorted(kinds_of(failing[1]), key=repr)
        fails.append((f"only-{which}-fails/{k[0][0]}", {"error": oracle.short(failing[1]), "kinds": k, "involved": items_of(k),
                                                       "other": oracle.short(oracle.plain((b if failing is a else a)[1]))}))
        return {"status": "diverge", "fails": fails}
    # both fail: compare kinds through the collected sets
    try:
        ca = run_strategy(d, True, vs, True)
        cb = run_strategy(d, False, vs, True)
    finally:
        dspec.cleanup()
    if ca[0] != "perr" or cb[0] != "perr":
        if ca[0] in ("other", "hang") or cb[0] in ("other", "hang"):
            return {"status": "other", "fails": []}
        return {"status": "perr", "fails": []}   # collect-vs-fail-fast verdicts are C10's subject
    ka, kb = kinds_of(ca[1]), kinds_of(cb[1])
    if ka != kb:
        diff = sorted(ka ^ kb, key=repr)
        fails.append((f"collected-error-sets-differ/{diff[0][0]}", {"data_first": sorted(ka, key=repr), "field_first": sorted(kb, key=repr),
                                                                     "involved": items_of(diff)}))
    else:
        fa, fb = kinds_of(a[1]), kinds_of(b[1])
        if not fa <= kb or not fb <= ka:
            fails.append(("fail-fast-error-not-in-collected-set", {"involved": items_of(sorted((fa | fb) - ka, key=repr)), "data_first": sorted(fa, key=repr), "field_first": sorted(fb, key=repr),
                                                                   "collected": sorted(ka, key=repr)}))
    return {"status": "perr", "fails": fails}


def features(case, involved):
    """root-cause oriented tags, restricted to the fields involved in the divergence"""
    d = dspec.resolve_naming(case["decl"])
    opts = d.get("options") or {}
    keys = [p[0] for p in case["input"]["v"] if isinstance(p[0], str)]
    by_any = {}
    for fd in dspec.all_fields(d):
        by_any[fd["name"]] = fd
        by_any[dspec.out_name(fd)] = fd
    fds = []
    for n in involved:
        fd = by_any.get(n)
        if fd is None and isinstance(n, str):
            fd = by_any.get(n.lower())
        if fd is not None and fd not in fds:
            fds.append(fd)
    tags = set()
    if any(n not in by_any for n in involved):
        tags.add("non-field-item")
    for fd in fds:
        f = fd.get("f") or {}
        ci = dspec.is_ci(fd, opts)
        names = set(dspec.in_names(fd))
        mine = [k for k in keys if k in names or (ci and k.lower() in {x.lower() for x in names})]
        if len(mine) > 1:
            tags.add("two-names")
            if len({k.lower() for k in mine}) < len(mine):
                tags.add("case-variants")
            if opts.get("ignore_alias_conflicts"):
                tags.add("ignore_alias_conflicts")
        if mine and f.get("no_input"):
            tags.add("no_input-fed")
        if d.get("parent") and any(pf["name"] == fd["name"] for pf in d["parent"]["fields"]):
            tags.add("redeclared" if fd in d["fields"] else "inherited")
        if not mine:
            tags.add("field-omitted")
            if opts.get("ignore_required"):
                tags.add("ignore_required")
        if f.get("mode") or f.get("readonly") or f.get("writeonly"):
            tags.add("field-mode")
    return ",".join(sorted(tags)) or "-"


def with_features(case, fails):
    out = []
    for s, d in fails:
        ft = features(case, d.get("involved", []))
        out.append((f"{s}/[{ft}]", dict(d, features=ft)))
    return out


def run_func_case(case):
    """a decorated function built twice (data_first_search on / off), the same call through both"""
    from . import c08
    sig, assign, spell = case["sig"], case["assign"], case.get("spell") or {}
    c08.validate_sig(sig)
    if sig.get("wrapper", "sync") != "sync":
        raise HarnessError("sync functions only")
    return _run_func(case, sig, assign, spell, collect=False)


def _run_func(case, sig, assign, spell, collect):
    from . import c08
    outs = []
    for dfs in (True, False):
        s2 = dict(sig, options=dict((sig.get("options") or {}), data_first_search=dfs, **({"collect_errors": True} if collect else {})))
        try:
            mod, f = c08.build(s2, decorated=True)
        except HarnessError:
            raise
        except decl_errors():
            return {"status": "discarded", "fails": []}
        try:
            args, kw = c08.spell_call(sig, assign, spell)
            for extra_k, extra_v in case.get("extra_kw") or []:
                kw[extra_k] = codec.decode(extra_v)
            mod.REC.clear()
            mod.REC.update(entered=False, ret=None, yields=[])
            o = oracle.outcome(f, *args, **kw)
            if o[0] == "ok":
                outs.append(("ok", oracle.plain(mod.REC.get("locals"))))
            elif o[0] == "perr":
                outs.append(("perr", sorted(map(repr, kinds_of(o[1])))))
            else:
                outs.append((o[0], type(o[1]).__name__ if o[0] == "other" else None))
        finally:
            c08.drop(mod)
    a, b = outs
    fails = []
    if a[0] != b[0]:
        fails.append((f"function/only-{'data-first' if a[0] != 'ok' else 'field-first'}-fails/{(a if a[0] != 'ok' else b)[1] if (a if a[0] != 'ok' else b)[0] == 'other' else (a if a[0] != 'ok' else b)[0]}",
                      {"data_first": oracle.short(a), "field_first": oracle.short(b)}))
    elif a[0] == "ok" and not oracle.equal(a[1], b[1]):
        fails.append(("function/received-values-differ", {"data_first": oracle.short(a[1]), "field_first": oracle.short(b[1])}))
    elif a[0] == "perr" and a[1] != b[1]:
        if collect:
            fails.append(("function/collected-error-sets-differ", {"data_first": a[1], "field_first": b[1]}))
        else:
            # fail-fast order is unspecified: the same KIND of failure = equal collected error sets
            return _run_func(case, sig, assign, spell, collect=True)
    return {"status": a[0] if a[0] == b[0] else "diverge", "fails": fails}


def judge(case):
    if "sig" in case:
        return run_func_case(case)["fails"]
    return with_features(case, run_case(case)["fails"])


def nontrivial(case):
    d = dspec.resolve_naming(case["decl"])
    keys = [p[0] for p in case["input"]["v"]]
    opts = d.get("options") or {}
    primary = {fd["name"] for fd in dspec.all_fields(d)}
    all_names = {}
    for fd in dspec.all_fields(d):
        for n in dspec.in_names(fd):
            all_names[n] = fd["name"]
            all_names[n.lower()] = fd["name"]
    seen = {}
    for k in keys:
        if not isinstance(k, str):
            continue
        if k not in primary:
            return True  # alias, case variant, extra key, or a name only the parent's declaration accepted
        seen[k] = seen.get(k, 0) + 1
    for fd in dspec.all_fields(d):
        f = fd.get("f") or {}
        if fd["name"] not in keys and ("default" in f or "factory" in f or "plain_default" in f):
            return True
        if fd["name"] in keys and f.get("no_input"):
            return True
    return False


def case_strategy():
    decls = dspec.decl_specs(options=dspec.CLASS_AND_NAMING_OPTIONS, inherit=True, extras=True)
    return decls.flatmap(lambda d: st.fixed_dictionaries({"decl": st.just(d), "input": dspec.inputs_for(d)}))


def func_cases():
    from . import c08

    @st.composite
    def build(draw):
        case = draw(c08.cases())
        sig = dict(case["sig"], wrapper="sync")
        for k in ("yield_t", "send_t", "eager"):
            sig.pop(k, None)
        sig["options"] = {k: v for k, v in (sig.get("options") or {}).items() if k != "data_first_search"}
        out = {"sig": sig, "assign": case["assign"], "spell": case["spell"]}
        # sometimes the same parameter arrives under two of its names
        named = [p for p in sig["params"] if (p.get("alias") or p.get("alias_from")) and p["name"] in case["assign"] and case["spell"].get(p["name"]) not in ("position", None)]
        if named and draw(st.booleans()):
            p = draw(st.sampled_from(named))
            other = p["name"] if case["spell"].get(p["name"]) == "alias" else (p.get("alias") or p["alias_from"][0])
            out["extra_kw"] = [[other, draw(st.sampled_from([case["assign"][p["name"]], 1, "x"]))]]
        elif any(q["kind"] == "varkw" for q in sig["params"]) and draw(st.integers(0, 3)) == 0:
            # a call Python refuses (a parameter passed by position and again by name): refused by both strategies alike
            dup = [q for q in sig["params"] if q["kind"] == "pos" and q["name"] in case["assign"] and case["spell"].get(q["name"]) == "position"]
            if dup:
                q = draw(st.sampled_from(dup))
                out["extra_kw"] = [[q["name"], draw(st.sampled_from([case["assign"][q["name"]], 1, "x"]))]]
        return out
    return build()


def campaign(ctx):
    def fbody(case):
        try:
            r = run_func_case(case)
        except HarnessError:
            ctx.label("function_case_discarded")
            return
        ctx.label(f"function_{r['status']}")
        if r["status"] in ("ok", "perr", "diverge"):
            ctx.nt(case)
            ctx.sample("function-" + r["status"], case)
        ctx.fail_all(r["fails"], case)
    ctx.run_given(func_cases(), fbody, max_examples=ctx.n(400, 5000))

    def body(case):
        r = run_case(case)
        ctx.label(f"status_{r['status']}")
        if r["status"] not in ("discarded", "other"):
            if case["decl"].get("parent"):
                ctx.label("subclass_of_a_generated_parent")
                if any(p[0] in dspec.stale_names(case["decl"]) for p in case["input"]["v"]):
                    ctx.label("input_uses_a_name_only_the_parent_accepted")
            if nontrivial(case):
                ctx.nt(case)
                ctx.sample(r["status"], case)
        if r["fails"]:
            ctx.fail_all(with_features(case, r["fails"]), case)
    ctx.run_given(case_strategy(), body, max_examples=ctx.n(1200, 15000))
    # seed-independent slice: ONE field reachable under two names, both given - every declared spelling x where the
    # case-insensitivity is declared x every spelling and order of the two keys x conflicting / equal-but-distinct values
    if ctx.shard == 0:
        n = 0
        for name in ("a", "aX", "Bee"):
            for ci in ("field", "class", None):
                for second in ("login", "Login"):
                    for ignore in (False, True):
                        for t in ("str", "int"):
                            f = {"alias_from": [second], "default": {"v": 0 if t == "int" else ""}}
                            if ci == "field":
                                f["case_insensitive"] = True
                            o = {"ignore_alias_conflicts": True} if ignore else {}
                            if ci == "class":
                                o["case_insensitive"] = True
                            d = {"name": "G6", "base": "schema", "fields": [{"name": name, "type": {"k": "leaf", "o": t}, "f": f}]}
                            if o:
                                d["options"] = o
                            for k1 in sorted({name, name.lower(), name.upper()}):
                                for k2 in sorted({second, second.lower(), second.upper()}):
                                    for v1, v2 in ((1, 2), (1, True), (True, 1), ("x", "y")):
                                        for pairs in ([[k1, v1], [k2, v2]], [[k2, v2], [k1, v1]]):
                                            n += 1
                                            ctx.ev()
                                            try:
                                                body({"decl": d, "input": {"t": "dict", "v": pairs}})
                                            except HarnessError:
                                                ctx.label("grid_case_refused")
        ctx.extra["two_names_grid_cases"] = n
