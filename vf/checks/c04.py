"""C04 - invalid input raises ParseError and nothing else; parsing terminates.

Generated: (type spec | data class | function, hostile value, any options, entry).  Oracle: the call
returns, or raises an exception that is an instance of ParseError (hence TypeError and ValueError);
termination by a deterministic budget of line events inside utype/ (vf/watchdog.py); for function
entries the body-entered flag must be unset when parameter parsing failed.
"""
from hypothesis import strategies as st

from .. import codec, entries, gen, oracle, tspec
from ..core import HarnessError
from .c01 import decl_errors

ID = "C04"
RULE = ("(type spec, value, options, entry) with 70% hostile values (any Python value: non-finite numbers in every "
        "spelling, huge ints, undecodable bytes, iterators, objects, classes, nested containers) and 30% type-directed; "
        "non-trivial = the call was rejected, or accepted after a conversion; distinct = hash of the whole case")
ASSUMPTIONS = [
    "termination verdict = more than 2e5 + 2e3*size(input) line events inside utype/ for one parse (ordinary parses use 1e2..1e4); "
    "a case over budget is re-run with 50x budget: completing there is 'slow' (evidence only), not a hang",
    "KeyboardInterrupt/SystemExit/MemoryError out of scope; evil objects (raising dunders) only in the thorough tier",
    "declarations refused at declaration time are discarded",
]
SHARDS = {"quick": 4, "thorough": 16}

ANY_OPTIONS = st.fixed_dictionaries({}, optional={
    "no_explicit_cast": st.just(True),
    "no_data_loss": st.just(True),
    "collect_errors": st.just(True),
    "invalid_items": st.sampled_from(["exclude", "preserve"]),
    "invalid_keys": st.sampled_from(["exclude", "preserve"]),
    "invalid_values": st.sampled_from(["exclude", "preserve"]),
    "allow_subclasses": st.just(False),
    "ignore_constraints": st.just(True),
    "unresolved_types": st.sampled_from(["ignore", "init"]),
    "max_depth": st.sampled_from([1, 2, 5]),
})


def budget_for(vs):
    from ..core import jsize
    return 200_000 + 2_000 * jsize(vs)


def run_case(case):
    try:
        spec, vs, opts, entry = case["type"], case["value"], case.get("options") or {}, case["entry"]
    except (KeyError, TypeError):
        raise HarnessError("malformed case")
    if entry not in entries.ENTRIES:
        raise HarnessError("bad entry")
    tspec.validate(spec)
    try:
        T = tspec.build(spec)
        fn = entries.build_entry(entry, T, opts)
    except HarnessError:
        raise
    except decl_errors() as e:
        return {"status": "discarded"}
    if entry in ("call", "transform"):
        from utype.parser.rule import LogicalType
        if not isinstance(T, LogicalType):
            # the property speaks of constrained and logical types, data classes and decorated functions:
            # utype.type_transform on a bare builtin is documented to raise TypeError/ValueError
            return {"status": "out-of-scope"}
    x = codec.decode(vs)
    b = budget_for(vs)
    out = oracle.outcome(fn, x, line_budget=b)
    res = {"status": out[0], "fails": []}
    if out[0] == "hang":
        x2 = codec.decode(vs)
        out2 = oracle.outcome(fn, x2, line_budget=b * 50, backstop=30)
        if out2[0] == "hang":
            res["fails"].append((f"hang@{out[1]}", {"where": out[1], "budget": b}))
        else:
            res["status"] = "slow"
        return res
    if out[0] == "other":
        e = out[1]
        res["fails"].append((f"escape/{oracle.other_sig(e)}", {"exception": type(e).__name__, "message": str(e)[:200],
                                                               "frame": oracle.utype_frame(e)}))
        return res
    if out[0] == "perr":
        e = out[1]
        if not (isinstance(e, TypeError) and isinstance(e, ValueError)):
            res["fails"].append(("perr-not-typeerror-and-valueerror", {"exception": type(e).__name__}))
        flags = getattr(fn, "flags", None)
        if flags and flags.get("entered"):
            res["fails"].append(("body-entered-despite-parse-error", {"exception": type(e).__name__}))
    if out[0] == "ok":
        res["changed"] = not oracle.equal(out[1], x)
        if opts.get("collect_errors") and entry not in ("call", "transform"):
            # "when parsing fails no instance is created and the body is not entered": collecting must not turn a failure into a success
            o2 = {k: v for k, v in opts.items() if k not in ("collect_errors", "max_errors")}
            try:
                fn2 = entries.build_entry(entry, T, o2)
                out2 = oracle.outcome(fn2, codec.decode(vs), line_budget=b)
            except decl_errors():
                out2 = ("ok", None)
            if out2[0] == "perr":
                flags = getattr(fn, "flags", None)
                res["fails"].append((f"invalid-input-accepted-under-collect_errors/{entry}{'/body-entered' if flags and flags.get('entered') else ''}",
                                     {"fail_fast_error": str(out2[1])[:200], "result": codec.encode(out[1]) if out[1] is not entries.ABSENT else "<absent>"}))
    return res


def judge(case):
    return run_case(case).get("fails", [])


def case_strategy(thorough):
    ts = gen.type_specs(max_leaves=5 if thorough else 3, lax_ok=True)
    ts = st.one_of(gen.leaf, gen.constrained(lax_ok=True), gen.enum_t, ts, ts)

    def with_value(spec):
        h = gen.hostile(max_leaves=10 if thorough else 6, evil=thorough)
        vals = st.one_of(h, h, gen.conforming(spec))
        return st.fixed_dictionaries({
            "type": st.just(spec), "value": vals, "options": ANY_OPTIONS,
            "entry": st.sampled_from(entries.ENTRIES),
        })
    return ts.flatmap(with_value)


def campaign(ctx):
    def body(case):
        r = run_case(case)
        s = r["status"]
        ctx.label(f"status_{s}")
        ctx.label(f"entry_{case['entry']}")
        if s in ("perr", "other", "hang") or (s == "ok" and r.get("changed")):
            ctx.nt(case)
        if s == "perr":
            ctx.sample("rejected", case)
        elif s == "ok" and r.get("changed"):
            ctx.sample("accepted-converted", case)
        ctx.fail_all(r.get("fails", []), case)
    ctx.run_given(case_strategy(ctx.thorough), body, max_examples=ctx.n(1500, 20000))
