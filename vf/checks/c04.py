"""C04 - invalid input raises ParseError and nothing else; parsing terminates.

Generated: (type spec | data class | function, hostile value, any options, entry).  Oracle: the call
returns, or raises an exception that is an instance of ParseError (hence TypeError and ValueError);
termination by a deterministic budget of line events inside utype/ (vf/watchdog.py); for function
entries the body-entered flag must be unset when parameter parsing failed.
"""
from hypothesis import strategies as st

from .. import codec, entries, gen, oracle, tspec
from ..core import HarnessError
from .c01 import decl_errors

ID = "C04"
RULE = ("(type spec, value, options, entry) with 70% hostile values (any Python value: non-finite numbers in every "
        "spelling, huge ints, undecodable bytes, iterators, objects, classes, nested containers) and 30% type-directed; "
        "non-trivial = the call was rejected, or accepted after a conversion; distinct = hash of the whole case Besides the random campaign: exhaustive grids of every builtin target x extreme scalars and of awkward-but-legal declarations x inputs aimed at them (every grid case counts as non-trivial when it is rejected or converted).")
ASSUMPTIONS = [
    "termination verdict = more than 2e5 + 2e3*size(input) line events inside utype/ for one parse (ordinary parses use 1e2..1e4); "
    "a case over budget is re-run with 50x budget: completing there is 'slow' (evidence only), not a hang; a case stopped by the wall-clock backstop "
    "before its LINE budget ran out is inconclusive (time inside one interpreter operation), counted as slow-inconclusive, never a verdict",
    "KeyboardInterrupt/SystemExit/MemoryError out of scope; evil objects (raising dunders) only in the thorough tier",
    "declarations refused at declaration time are discarded",
]
SHARDS = {"quick": 4, "thorough": 16}

ANY_OPTIONS = st.fixed_dictionaries({}, optional={
    "no_explicit_cast": st.just(True),
    "no_data_loss": st.just(True),
    "collect_errors": st.just(True),
    "invalid_items": st.sampled_from(["exclude", "preserve"]),
    "invalid_keys": st.sampled_from(["exclude", "preserve"]),
    "invalid_values": st.sampled_from(["exclude", "preserve"]),
    "allow_subclasses": st.just(False),
    "ignore_constraints": st.just(True),
    "unresolved_types": st.sampled_from(["ignore", "init"]),
    "max_depth": st.sampled_from([1, 2, 5]),
})


def _disc():
    import typing
    import utype

    class DA(utype.Schema):
        kind: typing.Literal["a"]
        x: int = 0

    class DB(utype.Schema):
        kind: typing.Literal["b"]
        y: int = 0

    class DH(utype.Schema):
        item: typing.Union[DA, DB] = utype.Field(discriminator="kind")
    for c in (DA, DB, DH):
        c.__module__ = "vf.dspec"
    return DH


def _plain(addition):
    import utype
    ns = {"__annotations__": {"a": int}, "a": 0, "__module__": __name__, "__qualname__": "Plain04"}
    if addition:
        ns["__options__"] = utype.Options(addition=True)
    return type("Plain04", (utype.Schema,), ns)


def _prop_class(base):
    import utype

    def make():
        class PNO(getattr(utype, base)):
            n: int = 0

            @property
            @utype.Field(no_output=True)
            def x(self) -> int:
                return getattr(self, "_x", 0)

            @x.setter
            def x(self, v: int = utype.Field(required=False, ge=0)):
                self._x = v
        PNO.__module__ = __name__
        return PNO
    return make


def _two_names(dfs, ci):
    import utype

    def make():
        ns = {"__annotations__": {"a": int}, "a": utype.Field(alias_from=["b"], default=0), "__module__": __name__, "__qualname__": "Two04",
              "__options__": utype.Options(data_first_search=dfs, case_insensitive=ci)}
        return type("Two04", (utype.Schema,), ns)
    return make


def _rule(ann, **constraints):
    from utype.parser.rule import Rule
    return Rule.parse_annotation(ann, constraints=constraints or None)


def _awkward():
    import typing as t
    from utype.parser.rule import Rule
    return {
        # legal annotations whose element / key type is not hashable, or whose constraint needs a conversion that can overflow
        "set_of_lists": lambda: _rule(t.Set[t.List[int]]),
        "frozenset_of_dicts": lambda: _rule(t.FrozenSet[t.Dict[str, int]]),
        "dict_keyed_by_list": lambda: _rule(t.Dict[t.Tuple[int, ...], int]),
        "set_of_sets": lambda: _rule(t.Set[t.Set[int]]),
        "dict_keyed_by_int_lists": lambda: Rule.annotate(dict, t.List[int], int),
        "untyped_contains_int": lambda: Rule.annotate(None, constraints={"contains": int}),
        "contains_int": lambda: Rule.annotate(list, constraints={"contains": int}),
        "contains_float_max1": lambda: Rule.annotate(list, constraints={"contains": float, "max_contains": 1}),
        "tuple_contains_decimal": lambda: Rule.annotate(tuple, constraints={"contains": __import__("decimal").Decimal, "min_contains": 1}),
        # abstract element-wise types fed one-shot iterators: every item is converted BEFORE the parse returns
        "iterator_of_int": lambda: _rule(t.Iterator[int]),
        "iterator_of_date": lambda: _rule(t.Iterator[__import__("datetime").date]),
        "discriminated_union": _disc,
        # a plain data class called directly with string keys that look like names of its own machinery
        # a property that takes input through its setter and is never shown (no_output)
        "hidden_settable_property_schema": _prop_class("Schema"),
        "hidden_settable_property_dataclass": _prop_class("DataClass"),
        "plain_schema": lambda: _plain(False),
        "plain_schema_addition": lambda: _plain(True),
        # one field given under two of its names: the two raw values are compared (alias conflict) before either is parsed
        "two_names_schema": _two_names(False, False), "two_names_schema_data_first": _two_names(True, False),
        "two_names_schema_ci": _two_names(False, True), "two_names_schema_ci_data_first": _two_names(True, True),
    }


AWKWARD = _awkward()
DIRECT_CLASSES = ("discriminated_union", "plain_schema", "plain_schema_addition", "hidden_settable_property_schema", "hidden_settable_property_dataclass",
                  "two_names_schema", "two_names_schema_data_first", "two_names_schema_ci", "two_names_schema_ci_data_first")


_HANGS = {}


def budget_for(vs):
    from ..core import jsize
    return 200_000 + 2_000 * jsize(vs)


def run_case(case):
    try:
        spec, vs, opts, entry = case["type"], case["value"], case.get("options") or {}, case["entry"]
    except (KeyError, TypeError):
        raise HarnessError("malformed case")
    if entry not in entries.ENTRIES:
        raise HarnessError("bad entry")
    if isinstance(spec, dict) and spec.get("k") == "awkward":
        if spec.get("name") not in AWKWARD:
            raise HarnessError("bad awkward declaration")
    else:
        tspec.validate(spec)
    try:
        T = AWKWARD[spec["name"]]() if spec.get("k") == "awkward" else tspec.build(spec)
        if spec.get("k") == "awkward" and spec["name"] in DIRECT_CLASSES and entry == "call":
            fn = T.__from__       # the data class itself, not a field holding one
        else:
            fn = entries.build_entry(entry, T, opts)
    except HarnessError:
        raise
    except decl_errors() as e:
        return {"status": "discarded"}
    if entry in ("call", "transform") and spec.get("k") != "awkward":
        from utype.parser.rule import LogicalType
        if not isinstance(T, LogicalType):
            # the property speaks of constrained and logical types, data classes and decorated functions:
            # utype.type_transform on a bare builtin is documented to raise TypeError/ValueError
            return {"status": "out-of-scope"}
    x = codec.decode(vs)
    b = budget_for(vs)
    out = oracle.outcome(fn, x, line_budget=b)
    res = {"status": out[0], "fails": []}
    if out[0] == "hang" and (out[1] is None or out[1] == "wall-clock-backstop"):
        # the wall clock ran out before the LINE budget did: time spent inside one interpreter operation (int(Decimal('1E+1000000')) takes
        # 30 s in CPython itself), not a loop in the library - inconclusive, counted, never a verdict
        return {"status": "slow-inconclusive", "fails": []}
    if out[0] == "hang" and _HANGS.get(out[1], 0) >= 2:
        # the same place was confirmed as a hang twice already in this process: same bucket, no 50x re-run (keeps a broken tree from costing minutes)
        res["fails"].append((f"hang@{out[1]}", {"where": out[1], "budget": b, "confirmed_by_rerun": False}))
        return res
    if out[0] == "hang":
        x2 = codec.decode(vs)
        out2 = oracle.outcome(fn, x2, line_budget=b * 50, backstop=30)
        from ..watchdog import WATCH
        # the 50x re-run was stopped by its line budget, or by the wall clock after it had already executed many times the first
        # budget inside the library: still looping (a wall-clock stop with few lines executed is time inside one operation)
        if out2[0] == "hang" and ((out2[1] is not None and out2[1] != "wall-clock-backstop") or WATCH.count > 10 * b):
            _HANGS[out[1]] = _HANGS.get(out[1], 0) + 1
            res["fails"].append((f"hang@{out[1]}", {"where": out[1], "budget": b}))
        else:
            res["status"] = "slow"
        return res
    if out[0] == "other":
        e = out[1]
        res["fails"].append((f"escape/{oracle.other_sig(e)}", {"exception": type(e).__name__, "message": str(e)[:200],
                                                               "frame": oracle.utype_frame(e)}))
        return res
    if out[0] == "perr":
        e = out[1]
        if not (isinstance(e, TypeError) and isinstance(e, ValueError)):
            res["fails"].append(("perr-not-typeerror-and-valueerror", {"exception": type(e).__name__}))
        flags = getattr(fn, "flags", None)
        if flags and flags.get("entered"):
            res["fails"].append(("body-entered-despite-parse-error", {"exception": type(e).__name__}))
    if out[0] == "ok" and spec.get("k") == "awkward" and spec["name"].startswith("iterator_") and out[1] is not entries.ABSENT and not isinstance(out[1], (str, bytes)):
        # the parse said "valid": walking through the result must not bring a failure to light afterwards
        late = oracle.outcome(lambda: list(out[1]))
        if late[0] in ("perr", "other"):
            res["fails"].append((f"failure-deferred-past-the-parse/{spec['name']}/{type(late[1]).__name__}", {"error": str(late[1])[:160], "entry": entry}))
            return res
        want_t = int if spec["name"] == "iterator_of_int" else __import__("datetime").date
        if late[0] == "ok" and not all(isinstance(e, want_t) for e in late[1]):
            res["fails"].append((f"unconverted-item-behind-a-valid-parse/{spec['name']}", {"items": oracle.short(late[1]), "entry": entry}))
            return res
    if out[0] == "ok":
        res["changed"] = not oracle.equal(out[1], x)
        if opts.get("collect_errors") and entry not in ("call", "transform"):
            # "when parsing fails no instance is created and the body is not entered": collecting must not turn a failure into a success
            o2 = {k: v for k, v in opts.items() if k not in ("collect_errors", "max_errors")}
            try:
                fn2 = entries.build_entry(entry, T, o2)
                out2 = oracle.outcome(fn2, codec.decode(vs), line_budget=b)
            except decl_errors():
                out2 = ("ok", None)
            if out2[0] == "perr":
                flags = getattr(fn, "flags", None)
                res["fails"].append((f"invalid-input-accepted-under-collect_errors/{entry}{'/body-entered' if flags and flags.get('entered') else ''}",
                                     {"fail_fast_error": str(out2[1])[:200], "result": codec.encode(out[1]) if out[1] is not entries.ABSENT else "<absent>"}))
    return res


def judge(case):
    return run_case(case).get("fails", [])


def case_strategy(thorough):
    ts = gen.type_specs(max_leaves=5 if thorough else 3, lax_ok=True)
    ts = st.one_of(gen.leaf, gen.constrained(lax_ok=True), gen.enum_t, ts, ts)

    def with_value(spec):
        h = gen.hostile(max_leaves=10 if thorough else 6, evil=thorough)
        vals = st.one_of(h, h, h, h, gen.conforming(spec), gen.conforming(spec), gen.unprintable)
        return st.fixed_dictionaries({
            "type": st.just(spec), "value": vals, "options": ANY_OPTIONS,
            "entry": st.sampled_from(entries.ENTRIES),
        })
    # numeric constraints meet values arithmetic cannot handle: NaN / infinities in every spelling, numbers beyond the float and Decimal ranges
    NONFINITE = (["nan", "NaN", "-nan", "sNaN", "inf", "-inf", "Infinity", "-Infinity", "1e400", "-1e400", "1E+5000", "1e-400", {"t": "bytes", "v": "6e616e"}]
                 + [{"t": "float", "v": v} for v in ("nan", "inf", "-inf", "1e308")] + [{"t": "decimal", "v": v} for v in ("NaN", "sNaN", "Infinity", "-Infinity", "1E+9999", "1E-9999")]
                 + [gen._int_spec(10 ** 400), gen._int_spec(-(10 ** 400))])
    numeric = gen.constrained(lax_ok=True, origins=["decimal", "decimal", "float", "int"]).flatmap(lambda spec: st.fixed_dictionaries({
        "type": st.just(spec), "value": st.sampled_from(NONFINITE), "options": st.one_of(st.just({}), ANY_OPTIONS),
        "entry": st.sampled_from(["call", "call", "transform"] + list(entries.ENTRIES))}))
    return st.one_of(ts.flatmap(with_value), ts.flatmap(with_value), ts.flatmap(with_value), ts.flatmap(with_value), ts.flatmap(with_value), numeric)


def campaign(ctx):
    def body(case):
        r = run_case(case)
        s = r["status"]
        ctx.label(f"status_{s}")
        ctx.label(f"entry_{case['entry']}")
        if case["type"].get("k") == "con" and case["type"].get("o") in ("decimal", "float", "int") and s in ("ok", "perr"):
            ctx.label("numeric_constraint_" + s)
        if isinstance(case["value"], dict) and (case["value"].get("t") == "deep" or "hex" in case["value"]):
            ctx.label("value_without_a_text_form_" + ("deep_nesting" if case["value"].get("t") == "deep" else "huge_int") + "_" + s)
        if s in ("perr", "other", "hang") or (s == "ok" and r.get("changed")):
            ctx.nt(case)
        if s == "perr":
            ctx.sample("rejected", case)
        elif s == "ok" and r.get("changed"):
            ctx.sample("accepted-converted", case)
        ctx.fail_all(r.get("fails", []), case)
    ctx.run_given(case_strategy(ctx.thorough), body, max_examples=ctx.n(1500, 20000))
    # every builtin target x extreme scalars (non-finite and out-of-range numbers in every numeric type and spelling, huge / tiny
    # magnitudes, empty and odd text): enumerated completely on every run, through a field, an Optional and a list item
    F, D = (lambda v: {"t": "float", "v": v}), (lambda v: {"t": "decimal", "v": v})
    extreme = [F("nan"), F("inf"), F("-inf"), F("1e308"), F("-1e308"), F("5e-324"), F("1e22"), F("-0.0"),
               D("NaN"), D("sNaN"), D("Infinity"), D("-Infinity"), D("1E+309"), D("-1E+400"), D("1E+4000"), D("1E-400"), D("9" * 400), D("0E+400"),
               gen._int_spec(10 ** 400), gen._int_spec(-(10 ** 400)), gen._int_spec(2 ** 63), gen._int_spec(-(2 ** 63) - 1), gen._int_spec(10 ** 18),
               "nan", "inf", "-inf", "1e400", "-1e400", "1E+4000", "1e-400", "", " ", "\x00", "0x10", "1_000", "١٢٣", "9" * 400, "-", "+", ".", "e5", "1e", "--1",
               {"t": "bytes", "v": "fffe"}, {"t": "bytes", "v": ""}, {"t": "bytes", "v": "6e616e"}, {"t": "complex", "re": "nan", "im": "inf"}, {"t": "complex", "re": "1e308", "im": "0.0"},
               True, None, {"t": "list", "v": []}, {"t": "dict", "v": []}, {"t": "timedelta", "v": [999999999, 0, 0]}, {"t": "date", "v": "0001-01-01"}, {"t": "date", "v": "9999-12-31"},
               {"t": "datetime", "v": "0001-01-01T00:00:00"}, {"t": "datetime", "v": "9999-12-31T23:59:59"}]
    idx = 0
    for o in gen.LEAF_ORIGINS:
        leaf = {"k": "leaf", "o": o}
        for shape, spec in (("field", leaf), ("opt", {"k": "opt", "a": leaf, "m": "annotate"}), ("item", {"k": "list", "a": leaf})):
            for v in extreme:
                idx += 1
                if idx % ctx.nshards != ctx.shard:
                    continue
                ctx.ev()
                body({"type": spec, "value": {"t": "list", "v": [v]} if shape == "item" else v, "options": {}, "entry": ("schema", "param", "call", "return")[idx % 4]})
    ctx.extra["extreme_scalar_grid_exhaustive"] = True
    # awkward but legal declarations x inputs aimed at them: enumerated completely
    hostile_items = [{"t": "list", "v": [{"t": "tuple", "v": [1, 2]}]}, {"t": "list", "v": [{"t": "list", "v": [1]}, {"t": "list", "v": [1]}]}, {"t": "list", "v": [{"t": "dict", "v": [["a", 1]]}]},
                     {"t": "list", "v": ["inf"]}, {"t": "list", "v": [F("inf"), 1]}, {"t": "list", "v": [D("NaN")]}, {"t": "list", "v": [gen._int_spec(10 ** 400)]}, {"t": "list", "v": ["1e400", "x"]},
                     {"t": "dict", "v": [[{"t": "tuple", "v": [1]}, 2]]}, {"t": "dict", "v": [["[1]", 2]]}, {"t": "set", "v": [1]}, {"t": "list", "v": [{"t": "set", "v": [1]}]}, "[[1]]", {"t": "list", "v": []},
                     {"t": "dict", "v": [["item", {"t": "dict", "v": [["kind", {"t": "list", "v": []}], ["x", 1]]}]]}, {"t": "dict", "v": [["item", {"t": "dict", "v": [["kind", {"t": "dict", "v": []}]]}]]},
                     {"t": "dict", "v": [["item", {"t": "dict", "v": [["kind", "a"], ["x", "2"]]}]]}, {"t": "dict", "v": [["item", {"t": "dict", "v": [["kind", "zz"]]}]]}, {"t": "dict", "v": [["item", 5]]},
                     {"t": "dict", "v": [["item", {"t": "dict", "v": [["kind", {"t": "obj"}]]}]]}, {"t": "dict", "v": [["item", {"t": "dict", "v": [["kind", F("nan")]]}]]},
                     {"t": "dict", "v": [["1,2", 3]]}, {"t": "dict", "v": [["[1]", "2"], ["x", 1]]}, 5, None, {"t": "float", "v": "1.5"},
                     {"t": "iter", "v": ["1", "x", 3]}, {"t": "gen", "v": [1, "2", None]}, {"t": "iter", "v": ["1", 2]}, {"t": "gen", "v": ["2020-01-02", "zz"]}, {"t": "iter", "v": []},
                     {"t": "dict", "v": [["x", 1]]}, {"t": "dict", "v": [["x", "7"], ["n", "2"]]}, {"t": "dict", "v": [["x", -1]]}, {"t": "dict", "v": [["x", "abc"]]},
                     {"t": "dict", "v": [["_obj_self", 1]]}, {"t": "dict", "v": [["_d", 1], ["a", "2"]]}, {"t": "dict", "v": [["_d", {"t": "dict", "v": [["a", "x"]]}]]}, {"t": "dict", "v": [["self", 1], ["cls", 2]]},
                     {"t": "dict", "v": [["kwargs", {"t": "dict", "v": []}], ["args", {"t": "list", "v": []}]]}, {"t": "dict", "v": [["__class__", 1], ["__dict__", {"t": "dict", "v": []}]]},
                     {"t": "dict", "v": [["a", 1], ["__options__", 3], ["__context__", None]]},
                     # values whose comparison raises (a signalling NaN, an object with a raising __eq__), under two names / two spellings of one field
                     {"t": "dict", "v": [["a", D("sNaN")], ["b", D("sNaN")]]}, {"t": "dict", "v": [["a", {"t": "evil", "v": "eq"}], ["b", {"t": "evil", "v": "eq"}]]},
                     {"t": "dict", "v": [["b", 1], ["a", {"t": "evil", "v": "eq"}]]}, {"t": "dict", "v": [["a", D("sNaN")], ["A", D("sNaN")]]}, {"t": "dict", "v": [["A", {"t": "evil", "v": "eq"}], ["a", 2]]},
                     {"t": "dict", "v": [["a", F("nan")], ["b", F("nan")]]}, {"t": "dict", "v": [["", 1], ["a b", 2], ["é", 3]]}]
    for name in AWKWARD:
        for v in hostile_items:
            if name in DIRECT_CLASSES and not (isinstance(v, dict) and v.get("t") == "dict" and all(isinstance(k, str) for k, _ in v["v"])):
                continue      # the data class is called directly: string-keyed mappings only (the property's domain)
            for entry in (("call", "schema") if name in DIRECT_CLASSES else ("call", "schema", "param", "return")):
                idx += 1
                if idx % ctx.nshards != ctx.shard:
                    continue
                ctx.ev()
                body({"type": {"k": "awkward", "name": name}, "value": v, "options": {}, "entry": entry})
    fuzz_tier(ctx, run_case)


def fuzz_tier(ctx, run_case_fn, pid="C04"):
    """coverage-guided fuzzing (atheris / libFuzzer) of the str / bytes -> T converters, oracle inside the target
    (vf/fuzz/strconv.py); failures come back as ordinary cases and are re-judged here, so they are bucketed, shrunk and
    replayable like the generated ones.  Quick: 4 000 runs in shard 0; thorough: 60 000 runs in each of the first 4 shards."""
    import json
    import os
    import shutil
    import subprocess
    import sys
    from ..core import ROOT, WORK, REPO
    if ctx.shard >= (4 if ctx.thorough else 1):
        return
    try:
        sys.path.append(os.path.join(ROOT, ".deps"))
        import atheris  # noqa: F401
    except Exception:
        ctx.label("fuzz_tier_skipped_atheris_missing")
        return
    runs = 60000 if ctx.thorough else 4000
    tag = f"{pid}-{ctx.tier}-{ctx.seed}-{ctx.shard}-{os.getpid()}"
    out = os.path.join(WORK, f"fuzz-{tag}.jsonl")
    corpus = os.path.join(WORK, f"corpus-{tag}")
    os.makedirs(corpus, exist_ok=True)
    # seed corpus: a few valid spellings (first byte selects the target, second the options, third the shape)
    for n, (i, text) in enumerate([(0, "2020-01-02T03:04:05+08:00"), (1, "2020-01-02"), (2, "03:04:05.5"), (3, "P1DT2H3M4.5S"), (4, '{"a": 1}'), (5, "[1, 2]"),
                                   (8, "1.50"), (9, "-12"), (10, "1e3"), (11, "true"), (12, "12345678-1234-5678-1234-567812345678"), (21, "1,2,3"), (22, "a=1&b=2")]):
        with open(os.path.join(corpus, f"seed{n}"), "wb") as f:
            f.write(bytes([i, 0, 0]) + text.encode())
    env = dict(os.environ, VF_FUZZ_OUT=out, VERIF_REPO=REPO, PYTHONHASHSEED="0")
    cmd = [sys.executable, "-B", os.path.join(ROOT, "vf", "fuzz", "strconv.py"), f"-runs={runs}", f"-seed={ctx.hseed + 1}", "-max_len=64", corpus]
    try:
        subprocess.run(cmd, env=env, cwd=ROOT, stdout=subprocess.DEVNULL, stderr=subprocess.DEVNULL, timeout=1500)
    except subprocess.TimeoutExpired:
        ctx.label("fuzz_tier_timeout")
    stats = {}
    if os.path.exists(out + ".stats"):
        stats = json.load(open(out + ".stats"))
    ctx.ev(stats.get("execs", 0))
    ctx.label("fuzz_execs", stats.get("execs", 0))
    ctx.label("fuzz_accepted", stats.get("accepted", 0))
    ctx.label("fuzz_rejected", stats.get("rejected", 0))
    ctx.label("fuzz_excluded_huge_exponent", stats.get("excluded_huge_exponent", 0))
    ctx.extra["fuzz_corpus_files"] = len(os.listdir(corpus))
    if os.path.exists(out):
        for line in open(out):
            rec = json.loads(line)
            case = {"type": rec["type"], "value": rec["value"], "options": rec["options"], "entry": "schema"}
            try:
                r = run_case_fn(case)
            except Exception:
                continue
            fails = r.get("fails") or []
            if not fails and pid == "C01" and r.get("status") == "ok" and not r.get("conforms", True):
                fails = [(f"nonconforming/{r['why']}", {"why": r["why"], "entry": "schema"})]
            ctx.fail_all(fails, case)
            ctx.label("fuzz_reported_failures")
    for pth in (out, out + ".stats"):
        if os.path.exists(pth):
            os.unlink(pth)
    shutil.rmtree(corpus, ignore_errors=True)
