"""The public entry points through which one (type, value, options) triple can be pushed."""
from .core import HarnessError

ENTRIES = ["call", "transform", "schema", "dataclass", "param", "return", "setattr", "addition", "varkw", "varargs"]

OPTION_KEYS = {"no_explicit_cast", "no_data_loss", "collect_errors", "max_errors", "invalid_items", "invalid_keys",
               "invalid_values", "allow_subclasses", "addition", "ignore_required", "data_first_search",
               "case_insensitive", "ignore_constraints", "unresolved_types", "max_depth", "cast_keyword_str",
               "no_default", "defer_default", "ignore_alias_conflicts", "max_params", "min_params", "mode",
               "immutable", "override", "ignore_delete_nonexistent", "alias_generator", "alias_from_generator"}


def make_options(o):
    import utype
    if not o:
        return None
    for k in o:
        if k not in OPTION_KEYS:
            raise HarnessError(f"bad option {k}")
    kw = dict(o)
    if kw.get("addition") == "int":
        kw["addition"] = int
    elif kw.get("addition") == "list_int":
        import typing
        kw["addition"] = typing.List[int]      # an annotation, not a class
    if "alias_generator" in kw or "alias_from_generator" in kw:
        from .dspec import ALIAS_GENS
        if "alias_generator" in kw:
            kw["alias_generator"] = ALIAS_GENS[kw["alias_generator"]]
        if "alias_from_generator" in kw:
            g = kw["alias_from_generator"]
            kw["alias_from_generator"] = [ALIAS_GENS[x] for x in g] if isinstance(g, list) else ALIAS_GENS[g]
    return utype.Options(**kw)


class Absent:
    """marker: the entry produced no value (field excluded / deferred)"""

    def __repr__(self):
        return "<absent>"


ABSENT = Absent()


def build_entry(entry, T, options):
    """-> callable(x) running one parse of x against T through *entry* (declaration happens here)"""
    import utype
    from utype.parser.rule import LogicalType
    opts = make_options(options)
    if entry == "call":
        if isinstance(T, LogicalType):
            if opts is None:
                return lambda x: T(x)
            return lambda x: T(x, context=opts.make_context())
        return lambda x: utype.type_transform(x, T, opts)
    if entry == "transform":
        return lambda x: utype.type_transform(x, T, opts)
    if entry in ("schema", "dataclass", "setattr"):
        base = utype.DataClass if entry == "dataclass" else utype.Schema
        ns = {"__annotations__": {"v": T}, "__module__": __name__, "__qualname__": "E"}
        if entry == "setattr":
            ns["v"] = utype.Field(required=False)
        if opts is not None:
            ns["__options__"] = opts
        S = type("E", (base,), ns)
        if entry == "setattr":
            def run(x):
                inst = S()
                inst.v = x
                try:
                    return inst.v
                except AttributeError:
                    return ABSENT
            return run

        def run(x):
            inst = S(v=x)
            try:
                return inst.v
            except AttributeError:
                return ABSENT
        return run
    if entry == "param":
        flags = {"entered": False}

        def f(v: T):
            flags["entered"] = True
            return v
        g = utype.parse(f, options=opts, ignore_result=True)

        def run(x):
            flags["entered"] = False
            return g(x)
        run.flags = flags
        return run
    if entry == "return":
        def f(v) -> T:
            return v
        g = utype.parse(f, options=opts)
        return lambda x: g(x)
    if entry == "addition":
        # the declared type of additional (undeclared) keys of a data class
        o = dict(options or {})
        o.pop("addition", None)
        kw = {k: v for k, v in o.items()}
        base_opts = utype.Options(addition=T, **kw)
        S = type("EA", (utype.Schema,), {"__annotations__": {"known": int}, "known": 0, "__module__": __name__, "__qualname__": "EA", "__options__": base_opts})

        def run(x):
            inst = S(zz=x)
            if "zz" not in inst:
                return ABSENT
            return dict.__getitem__(inst, "zz")
        return run
    if entry in ("varkw", "varargs"):
        flags = {"entered": False}
        got = {}
        if entry == "varkw":
            def f(first: int = 0, **kw: T):
                flags["entered"] = True
                got["v"] = kw
                return None
        else:
            def f(first: int = 0, *rest: T):
                flags["entered"] = True
                got["v"] = rest
                return None
        g = utype.parse(f, options=opts, ignore_result=True)

        def run(x):
            flags["entered"] = False
            got.clear()
            if entry == "varkw":
                g(zz=x)
                return got["v"]["zz"] if "zz" in got.get("v", {}) else ABSENT
            g(1, x)
            return got["v"][0] if got.get("v") else ABSENT
        run.flags = flags
        return run
    raise HarnessError(f"bad entry {entry}")
