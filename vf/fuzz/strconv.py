#!/venv/bin/python
"""atheris target: coverage-guided fuzzing of the string / bytes -> T converters with the C01 and C04 oracles INSIDE the target.

bytes -> (target type index, constraint set index, str | bytes | list wrapper flag, option flags, payload).  The target never
crashes on an oracle failure (libFuzzer would stop at the first one): failures are appended as JSON lines to $VF_FUZZ_OUT and
the run goes on.  Invoked by vf/checks/c04.py and c01.py in the thorough tier:
    strconv.py -runs=N -seed=S -max_len=64 [corpus dir]
"""
import json
import os
import re
import sys

ROOT = os.path.dirname(os.path.dirname(os.path.dirname(os.path.abspath(__file__))))
sys.path.insert(0, ROOT)
sys.path.insert(0, os.environ.get("VERIF_REPO", "/repo"))
sys.path.append(os.path.join(ROOT, ".deps"))

import warnings  # noqa: E402

warnings.simplefilter("ignore")
import atheris  # noqa: E402

with atheris.instrument_imports(include=["utype"]):
    import utype  # noqa: F401
    from utype.utils import transform as _t  # noqa: F401
    from utype.parser import rule as _r  # noqa: F401

from vf import codec, tspec  # noqa: E402
from vf.watchdog import WATCH  # noqa: E402
from vf.oracle import Hang  # noqa: E402

TARGETS = [
    {"k": "leaf", "o": "datetime"}, {"k": "leaf", "o": "date"}, {"k": "leaf", "o": "time"}, {"k": "leaf", "o": "timedelta"},
    {"k": "leaf", "o": "dict"}, {"k": "leaf", "o": "list"}, {"k": "leaf", "o": "tuple"}, {"k": "leaf", "o": "set"},
    {"k": "leaf", "o": "decimal"}, {"k": "leaf", "o": "int"}, {"k": "leaf", "o": "float"}, {"k": "leaf", "o": "bool"}, {"k": "leaf", "o": "uuid"},
    {"k": "leaf", "o": "complex"}, {"k": "leaf", "o": "none"}, {"k": "enum", "e": "Color"}, {"k": "enum", "e": "Num"},
    {"k": "con", "o": "int", "c": {"gt": 0, "max_digits": 3}}, {"k": "con", "o": "decimal", "c": {"max_digits": 4, "decimal_places": 2}},
    {"k": "con", "o": "float", "c": {"ge": 0, "multiple_of": {"t": "float", "v": "0.5"}}}, {"k": "con", "o": "str", "c": {"regex": r"\d+", "max_length": 4}},
    {"k": "list", "a": {"k": "leaf", "o": "int"}}, {"k": "dict", "key": {"k": "leaf", "o": "str"}, "val": {"k": "leaf", "o": "int"}},
    {"k": "tuple", "a": [{"k": "leaf", "o": "int"}, {"k": "leaf", "o": "date"}]},
    {"k": "union", "a": [{"k": "leaf", "o": "int"}, {"k": "leaf", "o": "datetime"}, {"k": "list", "a": {"k": "leaf", "o": "float"}}], "m": "annotate"},
    {"k": "opt", "a": {"k": "leaf", "o": "timedelta"}, "m": "annotate"},
]
OPTS = [{}, {}, {"no_explicit_cast": True}, {"no_data_loss": True}, {"collect_errors": True}, {"invalid_items": "exclude"}]
_built = {}
OUT = os.environ.get("VF_FUZZ_OUT")
_seen = set()
STATS = {"execs": 0, "accepted": 0, "rejected": 0, "failures": 0, "excluded_huge_exponent": 0}
HUGE_EXPONENT = re.compile(r"[eE][+-]?[\d_]{5,}")


def built(i, oi):
    """the declared type sits in a Schema field: every failure must then be a ParseError (C04), every result conform (C01)"""
    key = (i, oi)
    if key not in _built:
        from vf import entries
        T = tspec.build(TARGETS[i])
        opts = entries.make_options(OPTS[oi])
        ns = {"__annotations__": {"v": T}, "__module__": "vf.entries", "__qualname__": "FZ"}
        if opts is not None:
            ns["__options__"] = opts
        _built[key] = type("FZ", (utype.Schema,), ns)
    return _built[key]


def report(sig, i, oi, value):
    STATS["failures"] += 1
    if sig in _seen or not OUT:
        return
    _seen.add(sig)
    with open(OUT, "a") as f:
        f.write(json.dumps({"sig": sig, "type": TARGETS[i], "options": OPTS[oi], "value": codec.encode(value)}) + "\n")


def one(data):
    fdp = atheris.FuzzedDataProvider(data)
    i = fdp.ConsumeIntInRange(0, len(TARGETS) - 1)
    oi = fdp.ConsumeIntInRange(0, len(OPTS) - 1)
    shape = fdp.ConsumeIntInRange(0, 3)
    if shape == 1:
        x = fdp.ConsumeBytes(fdp.remaining_bytes())
    else:
        x = fdp.ConsumeUnicodeNoSurrogates(fdp.remaining_bytes())
        if shape == 2:
            x = [x]
    if HUGE_EXPONENT.search(x[0] if shape == 2 else x.decode("latin-1") if shape == 1 else x):
        # excluded by construction, and counted: int(Decimal('1E+77000000')) is hours of libmpdec base conversion in one C call that no
        # watchdog can interrupt (the conversion is slow, not wrong: C04 files the class as slow-inconclusive)
        STATS["excluded_huge_exponent"] += 1
        return
    S = built(i, oi)
    STATS["execs"] += 1
    if STATS["execs"] % 250 == 0 and OUT:
        with open(OUT + ".stats", "w") as f:
            json.dump(STATS, f)
    from utype.utils.exceptions import ParseError
    from vf.oracle import other_sig
    try:
        st, r = WATCH.run(lambda: S(v=x), 400_000 + 2_000 * len(x))
    except ParseError:
        STATS["rejected"] += 1
        return
    except Hang:
        report(f"hang@{WATCH.last}", i, oi, x)
        return
    except RecursionError:
        return
    except Exception as e:   # anything else escaped
        report(f"escape/{other_sig(e)}", i, oi, x)
        return
    if st == "hang":
        report(f"hang@{r}", i, oi, x)
        return
    STATS["accepted"] += 1
    if "v" not in r:
        return
    why = []
    if not tspec.conforms(dict.__getitem__(r, "v"), TARGETS[i], why):
        report(f"nonconforming/{why[0] if why else '?'}", i, oi, x)


def main():
    atheris.Setup(sys.argv, one)
    atheris.Fuzz()     # exits the process itself: statistics are flushed from inside the target


if __name__ == "__main__":
    main()
