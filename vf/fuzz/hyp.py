#!/venv/bin/python
"""atheris target driving a check's Hypothesis strategy through `fuzz_one_input` (structured, coverage-guided):
    hyp.py <PID> -runs=N -seed=S [corpus]
The bytes libFuzzer mutates are Hypothesis' choice sequence for `vf.checks.<pid>.case_strategy(...)`; every generated case
goes through the check's own run_case / oracle.  Oracle failures are appended to $VF_FUZZ_OUT (JSON lines with the case) and
the run continues."""
import json
import os
import sys

ROOT = os.path.dirname(os.path.dirname(os.path.dirname(os.path.abspath(__file__))))
sys.path.insert(0, ROOT)
sys.path.insert(0, os.environ.get("VERIF_REPO", "/repo"))
sys.path.append(os.path.join(ROOT, ".deps"))
import warnings  # noqa: E402

warnings.simplefilter("ignore")
import atheris  # noqa: E402

with atheris.instrument_imports(include=["utype"]):
    import utype  # noqa: F401
    from utype.utils import transform as _t  # noqa: F401
    from utype.parser import rule as _r, base as _b, cls as _c, func as _f  # noqa: F401
    from utype.specs.json_schema import parser as _p, generator as _g  # noqa: F401

from hypothesis import HealthCheck, given, settings  # noqa: E402

from vf import core  # noqa: E402

PID = sys.argv[1]
sys.argv = [sys.argv[0]] + sys.argv[2:]
mod = core.load_check(PID)
OUT = os.environ.get("VF_FUZZ_OUT")
STATS = {"execs": 0, "cases": 0, "failures": 0}
_seen = set()
try:
    strategy = mod.case_strategy(False)
except TypeError:
    strategy = mod.case_strategy()


@settings(database=None, deadline=None, suppress_health_check=list(HealthCheck))
@given(strategy)
def test(case):
    STATS["cases"] += 1
    try:
        r = mod.run_case(case)
    except core.HarnessError:
        return
    fails = r[0] if isinstance(r, tuple) else (r.get("fails") or [])
    for sig, detail in fails:
        STATS["failures"] += 1
        if sig in _seen or not OUT:
            continue
        _seen.add(sig)
        with open(OUT, "a") as f:
            f.write(json.dumps({"sig": sig, "case": case}, default=repr) + "\n")


def one(data):
    STATS["execs"] += 1
    if STATS["execs"] % 500 == 0 and OUT:
        with open(OUT + ".stats", "w") as f:
            json.dump(STATS, f)
    try:
        test.hypothesis.fuzz_one_input(data)
    except core.HarnessError:
        pass


atheris.Setup(sys.argv, one)
atheris.Fuzz()
