"""ValueSpec: tagged JSON for arbitrary Python values (the replayable form of every generated value).

JSON-native: null, bool, int (|x| < 2**53), str.  Everything else: {"t": tag, ...}.
decode() always builds fresh objects; encode() is used for evidence samples and for replay detail.
"""
import base64
import collections
import datetime as dt
import decimal
import enum
import uuid

from .core import HarnessError


# -- harness enums / classes -------------------------------------------------------------------

class Color(str, enum.Enum):
    RED = "red"
    GREEN = "green"


class Num(int, enum.Enum):
    ONE = 1
    TWO = 2


class Plain(enum.Enum):
    A = "a"
    B = 2


class Cross(enum.Enum):
    """the value of each member is the NAME of the other one"""
    A = "B"
    B = "A"


ENUMS = {"Color": Color, "Num": Num, "Plain": Plain, "Cross": Cross}


Pair = collections.namedtuple("Pair", "x y")      # a tuple subclass that is built from positional items


class PlainObj:
    def __repr__(self):
        return "<PlainObj>"


class SubInt(int):
    pass


class SubStr(str):
    pass


class SubList(list):
    pass


class SubDict(dict):
    pass


class SubFloat(float):
    pass


SUBS = {"int": SubInt, "str": SubStr, "list": SubList, "dict": SubDict, "float": SubFloat}
CLASSES = {"int": int, "str": str, "PlainObj": PlainObj, "Color": Color, "dict": dict, "object": object}


class EvilError(Exception):
    pass


def make_evil(kind):
    class Evil:
        def __repr__(self):
            return f"<Evil {kind}>"
    if kind == "eq":
        Evil.__eq__ = lambda s, o: (_ for _ in ()).throw(EvilError("eq"))
        Evil.__hash__ = lambda s: 1
    elif kind == "str":
        Evil.__str__ = lambda s: (_ for _ in ()).throw(EvilError("str"))
    elif kind == "len":
        Evil.__len__ = lambda s: (_ for _ in ()).throw(EvilError("len"))
    elif kind == "bool":
        Evil.__bool__ = lambda s: (_ for _ in ()).throw(EvilError("bool"))
    elif kind == "iter":
        Evil.__iter__ = lambda s: (_ for _ in ()).throw(EvilError("iter"))
    else:
        raise HarnessError(f"bad evil kind {kind}")
    return Evil()


EVIL_KINDS = ["eq", "str", "len", "bool", "iter"]

BIG = 2 ** 53


def decode(s):
    if s is None or isinstance(s, (bool, str)):
        return s
    if isinstance(s, int):
        return s
    if not isinstance(s, dict) or "t" not in s:
        raise HarnessError(f"malformed ValueSpec: {s!r}")
    t = s["t"]
    try:
        if t == "int":
            # (ints beyond the interpreter's decimal-digit limit are written in hex: int()/str() refuse them in base 10)
            return int(s["hex"], 16) if "hex" in s else int(s["v"])
        if t == "deep":
            # a container nested s["n"] levels deep (beyond the recursion limit), s["w"] items wide at the top; built without recursion
            mk = {"list": lambda x: [x], "tuple": lambda x: (x,), "dict": lambda x: {"k": x}}[s["c"]]
            cur = decode(s.get("leaf", 1))
            for _ in range(int(s["n"])):
                cur = mk(cur)
            top = [cur] + [decode(s.get("leaf", 1))] * (int(s.get("w", 1)) - 1)
            return {"list": top, "tuple": tuple(top), "dict": {f"k{i}": e for i, e in enumerate(top)}}[s["c"]]
        if t == "float":
            return float(s["v"])
        if t == "decimal":
            return decimal.Decimal(s["v"])
        if t == "complex":
            return complex(float(s["re"]), float(s["im"]))
        if t == "bytes":
            return bytes.fromhex(s["v"])
        if t == "bytearray":
            return bytearray(bytes.fromhex(s["v"]))
        if t == "memoryview":
            return memoryview(bytes.fromhex(s["v"]))
        if t == "list":
            return [decode(e) for e in s["v"]]
        if t == "tuple":
            return tuple(decode(e) for e in s["v"])
        if t == "pair":
            return Pair(*[decode(e) for e in s["v"]])
        if t == "set":
            return set(decode(e) for e in s["v"])
        if t == "frozenset":
            return frozenset(decode(e) for e in s["v"])
        if t == "deque":
            return collections.deque(decode(e) for e in s["v"])
        if t == "dict":
            return {decode(k): decode(v) for k, v in s["v"]}
        if t == "iter":
            return iter([decode(e) for e in s["v"]])
        if t == "gen":
            items = [decode(e) for e in s["v"]]
            return (x for x in items)
        if t == "range":
            return range(*s["v"])
        if t == "date":
            return dt.date.fromisoformat(s["v"])
        if t == "datetime":
            return dt.datetime.fromisoformat(s["v"])
        if t == "time":
            return dt.time.fromisoformat(s["v"])
        if t == "timedelta":
            d, sec, us = s["v"]
            return dt.timedelta(days=d, seconds=sec, microseconds=us)
        if t == "uuid":
            return uuid.UUID(s["v"])
        if t == "enum":
            return ENUMS[s["e"]][s["m"]]
        if t == "obj":
            return PlainObj()
        if t == "cls":
            return CLASSES[s["v"]]
        if t == "evil":
            return make_evil(s["v"])
        if t == "sub":
            base = s["b"]
            inner = decode(s["v"])
            return SUBS[base](inner)
    except HarnessError:
        raise
    except (KeyError, ValueError, TypeError, decimal.InvalidOperation, OverflowError, IndexError) as e:
        raise HarnessError(f"malformed ValueSpec {s!r}: {e}")
    raise HarnessError(f"unknown ValueSpec tag {t!r}")


def safe_repr(v, n=80):
    try:
        return repr(v)[:n]
    except Exception as e:      # deep nesting (RecursionError), ints beyond the digit limit (ValueError), hostile objects
        return f"<{type(v).__name__}: repr failed with {type(e).__name__}>"


def encode(v, depth=0):
    """best-effort inverse, for samples / details (falls back to repr)"""
    if depth > 8:
        return {"t": "repr", "v": safe_repr(v)}
    if v is None or isinstance(v, bool):
        return v
    if isinstance(v, enum.Enum):
        for n, e in ENUMS.items():
            if isinstance(v, e):
                return {"t": "enum", "e": n, "m": v.name}
        return {"t": "repr", "v": repr(v)}
    for b, c in SUBS.items():
        if type(v) is c:
            return {"t": "sub", "b": b, "v": encode({"int": int, "str": str, "list": list, "dict": dict, "float": float}[b](v), depth + 1)}
    if type(v) is int:
        if v.bit_length() > 10000:
            return {"t": "int", "hex": hex(v)}
        return v if abs(v) < BIG else {"t": "int", "v": str(v)}
    if type(v) is str:
        return v
    if type(v) is float:
        return {"t": "float", "v": repr(v)}
    if type(v) is decimal.Decimal:
        return {"t": "decimal", "v": str(v)}
    if type(v) is complex:
        return {"t": "complex", "re": repr(v.real), "im": repr(v.imag)}
    if type(v) is bytes:
        return {"t": "bytes", "v": v.hex()}
    if type(v) is bytearray:
        return {"t": "bytearray", "v": bytes(v).hex()}
    if type(v) is memoryview:
        return {"t": "memoryview", "v": bytes(v).hex()}
    if type(v) in (list, tuple, collections.deque):
        return {"t": type(v).__name__, "v": [encode(e, depth + 1) for e in v]}
    if type(v) is Pair:
        return {"t": "pair", "v": [encode(e, depth + 1) for e in v]}
    if type(v) in (set, frozenset):
        try:
            items = sorted(v, key=repr)
        except Exception:
            items = list(v)
        return {"t": type(v).__name__, "v": [encode(e, depth + 1) for e in items]}
    if type(v) is dict:
        return {"t": "dict", "v": [[encode(k, depth + 1), encode(x, depth + 1)] for k, x in v.items()]}
    if type(v) is dt.datetime:
        return {"t": "datetime", "v": v.isoformat()}
    if type(v) is dt.date:
        return {"t": "date", "v": v.isoformat()}
    if type(v) is dt.time:
        return {"t": "time", "v": v.isoformat()}
    if type(v) is dt.timedelta:
        return {"t": "timedelta", "v": [v.days, v.seconds, v.microseconds]}
    if type(v) is uuid.UUID:
        return {"t": "uuid", "v": str(v)}
    if type(v) is PlainObj:
        return {"t": "obj"}
    try:
        r = safe_repr(v, 10**6)
    except Exception as e:
        r = f"<repr failed {type(e).__name__}>"
    return {"t": "repr", "type": type(v).__name__, "v": r[:200]}


def canon_value(v):
    """hashable canonical text of a value (via encode), for counting distinct outcomes"""
    import json
    try:
        return json.dumps(encode(v), sort_keys=True, default=repr)
    except Exception:
        return repr(type(v))
