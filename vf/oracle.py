"""Shared oracles: outcome classification, structural equality, projection onto builtins."""
import collections
import collections.abc
import datetime as dt
import decimal
import enum
import math
import os
import signal
import traceback

from .core import REPO


class Hang(BaseException):
    """raised by the watchdogs; BaseException because utype wraps `except Exception` everywhere"""


BACKSTOP_S = 10


def _alarm(signum, frame):
    raise Hang("wall-clock backstop")


def perr_cls():
    from utype.utils.exceptions import ParseError
    return ParseError


_UTYPE_DIR = os.path.join(os.path.realpath(REPO), "utype") + os.sep


def utype_frame(exc):
    """innermost frame inside utype/ of the traceback: 'file.py:function'"""
    best = None
    tb = exc.__traceback__
    for fs in traceback.extract_tb(tb):
        fn = os.path.realpath(fs.filename)
        if fn.startswith(_UTYPE_DIR):
            best = f"{fn[len(_UTYPE_DIR):]}:{fs.name}"
    return best or "outside-utype"


def outcome(fn, *a, line_budget=None, backstop=None, **kw):
    """('ok', value) | ('perr', exc) | ('other', exc) | ('hang', where)
    line_budget: deterministic budget of LINE events inside utype/ (vf.watchdog)."""
    PE = perr_cls()
    old = signal.signal(signal.SIGALRM, _alarm)
    signal.setitimer(signal.ITIMER_REAL, backstop or BACKSTOP_S)
    try:
        try:
            if line_budget is not None:
                from .watchdog import WATCH
                st, v = WATCH.run(lambda: fn(*a, **kw), line_budget)
                if st == "hang":
                    return ("hang", v)
                return ("ok", v)
            v = fn(*a, **kw)
            return ("ok", v)
        finally:
            signal.setitimer(signal.ITIMER_REAL, 0)
            signal.signal(signal.SIGALRM, old)
    except PE as e:
        return ("perr", e)
    except Hang:
        return ("hang", "wall-clock-backstop")
    except RecursionError as e:
        return ("other", e)
    except Exception as e:
        return ("other", e)


def other_sig(exc):
    return f"{type(exc).__name__}@{utype_frame(exc)}"


def is_dataclass_inst(x):
    return hasattr(type(x), "__parser__") and not isinstance(x, type)


def inst_views(x):
    """(key view, attribute view) of a data class instance, without harness-irrelevant internals"""
    attrs = {k: v for k, v in getattr(x, "__dict__", {}).items() if k not in ("__context__", "__options__")}
    keys = dict(x) if isinstance(x, dict) else None
    return keys, attrs


def equal(a, b, _depth=0):
    """structural, type-aware, NaN-aware equality"""
    if _depth > 60:
        return a is b
    if a is b:
        return True
    ta, tb = type(a), type(b)
    if ta is not tb:
        return False
    if ta is float or isinstance(a, float):
        return (a == b) or (math.isnan(a) and math.isnan(b))
    if ta is decimal.Decimal:
        if a.is_nan() or b.is_nan():
            return a.is_nan() and b.is_nan()
        return a == b
    if ta is complex:
        return equal(a.real, b.real) and equal(a.imag, b.imag)
    if is_dataclass_inst(a):
        ka, aa = inst_views(a)
        kb, ab = inst_views(b)
        if (ka is None) != (kb is None):
            return False
        if ka is not None and not equal(ka, kb, _depth + 1):
            return False
        return equal(aa, ab, _depth + 1)
    if isinstance(a, (list, tuple, collections.deque)):
        return len(a) == len(b) and all(equal(x, y, _depth + 1) for x, y in zip(a, b))
    if isinstance(a, (set, frozenset)):
        if len(a) != len(b):
            return False
        rest = list(b)
        for x in a:
            for i, y in enumerate(rest):
                if equal(x, y, _depth + 1):
                    del rest[i]
                    break
            else:
                return False
        return True
    if isinstance(a, dict):
        if len(a) != len(b):
            return False
        rest = list(b.items())
        for k, v in a.items():
            for i, (k2, v2) in enumerate(rest):
                if equal(k, k2, _depth + 1):
                    if not equal(v, v2, _depth + 1):
                        return False
                    del rest[i]
                    break
            else:
                return False
        return True
    if ta is dt.datetime:
        if (a.tzinfo is None) != (b.tzinfo is None):
            return False
        return a == b and a.utcoffset() == b.utcoffset()
    if ta is dt.time:
        if (a.tzinfo is None) != (b.tzinfo is None):
            return False
        return a == b
    if isinstance(a, collections.abc.Iterator) or type(a).__name__ in ("PlainObj", "Evil", "memoryview"):
        # opaque / one-shot objects decoded twice from the same spec: same type is all that can be compared
        if type(a).__name__ == "memoryview":
            return bytes(a) == bytes(b)
        return True
    try:
        return bool(a == b)
    except Exception:
        return False


def plain(x, _depth=0):
    """projection onto builtins (instances -> {'__cls__', keys, attrs})"""
    if _depth > 60:
        return "<deep>"
    if is_dataclass_inst(x):
        k, a = inst_views(x)
        return {"__cls__": type(x).__name__, "keys": plain(k, _depth + 1), "attrs": plain(a, _depth + 1)}
    if isinstance(x, dict):
        return {kk: plain(v, _depth + 1) for kk, v in x.items()}
    if isinstance(x, (list, tuple, collections.deque)):
        return type(x)(plain(v, _depth + 1) for v in x) if type(x) in (list, tuple) else [plain(v, _depth + 1) for v in x]
    if isinstance(x, (set, frozenset)):
        return type(x)(x)
    return x


def err_kind(e):
    """(class name, item) of a ParseError, looking through wrappers to the most specific cause"""
    return (type(e).__name__, getattr(e, "item", None))


def short(x, n=200):
    try:
        r = repr(x)
    except Exception as e:
        r = f"<repr failed: {type(e).__name__}>"
    return r if len(r) <= n else r[:n] + "..."


def reject_raw(o):
    """utype.type_transform on a bare builtin raises the converter's own TypeError/ValueError (documented):
    for standalone verdicts of an argument/element type that is a rejection like a ParseError"""
    if o[0] == "other" and isinstance(o[1], (TypeError, ValueError, ArithmeticError)) and not isinstance(o[1], RecursionError):
        return ("perr", o[1])
    return o
