"""DeclSpec: JSON description of a data class (and helpers to build it, to generate inputs for it,
and to judge instances).

{"name": "D", "base": "schema"|"dataclass"|"deco", "options": {...}, "local": bool,
 "fields": [{"name": attname, "type": TypeSpec, "f": FieldSpec}, ...],
 "parent": DeclSpec (optional, one level; same kind of base): the class inherits from it, fields of the same name are redeclared,
 "extras": [{"kind": "method"|"classmethod"|"classvar", "name": str}] (optional): non-field members of the class (may be named like an input name of a field)}
FieldSpec (all optional): required (true/false/"r"/"w"/"a"), default {"v": ValueSpec}, factory "list"|"dict"|"five",
 defer_default, alias str, alias_gen "upper"|"camel", alias_from [str], case_insensitive bool, no_input (true|"r"|"w"|"a"|"fn:falsy"),
 no_output (true|"r"|"w"|"a"|"fn:none"), mode str, readonly, writeonly, dependencies [attname|alias], on_error,
 immutable, final, c {constraints}, lax [names], plain_default {"v": ValueSpec}  (class attribute `a: T = value`)
"""
import typing

from hypothesis import strategies as st

from . import codec, constraints, gen, tspec
from .core import HarnessError

_n = [0]

FACTORIES = {"list": list, "dict": dict, "five": lambda: 5}
ALIAS_GENS = {"upper": lambda s: s.upper(), "camel": lambda s: "".join(w.capitalize() for w in s.split("_")),
              "dash": lambda s: s.replace("_", "-"), "suffix": lambda s: s + "_in", "twice": lambda s: s + s}
NAMING_KEYS = ("alias_generator", "alias_from_generator")
NO_INPUT_FNS = {"fn:falsy": lambda v: not v}
NO_OUTPUT_FNS = {"fn:none": lambda v: v is None}


def field_kwargs(f):
    kw = {}
    for k in ("required", "defer_default", "alias", "alias_from", "case_insensitive", "mode", "readonly", "writeonly",
              "dependencies", "on_error", "immutable"):
        if k in f:
            kw[k] = f[k]
    if "default" in f:
        kw["default"] = codec.decode(f["default"]["v"])
    if "factory" in f:
        kw["default_factory"] = FACTORIES[f["factory"]]
    if "alias_gen" in f:
        kw["alias"] = ALIAS_GENS[f["alias_gen"]]
    if "no_input" in f:
        ni = f["no_input"]
        kw["no_input"] = NO_INPUT_FNS[ni] if isinstance(ni, str) and ni.startswith("fn:") else ni
    if "no_output" in f:
        no = f["no_output"]
        kw["no_output"] = NO_OUTPUT_FNS[no] if isinstance(no, str) and no.startswith("fn:") else no
    if "c" in f:
        kw.update(tspec.decode_constraints(f["c"], f.get("lax", ())))
    return kw


def validate(d):
    try:
        if d["base"] not in ("schema", "dataclass", "deco"):
            raise HarnessError("bad base")
        if not isinstance(d["fields"], list):
            raise HarnessError("bad fields")
        seen = set()
        for fd in d["fields"]:
            if not isinstance(fd["name"], str) or not fd["name"].isidentifier() or fd["name"].startswith("_") or fd["name"] in seen:
                raise HarnessError("bad field name")
            seen.add(fd["name"])
            tspec.validate(fd["type"])
            if not isinstance(fd.get("f", {}), dict):
                raise HarnessError("bad field spec")
        for x in d.get("extras") or []:
            if x["kind"] not in ("method", "classmethod", "classvar") or not isinstance(x["name"], str) or not x["name"].isidentifier() \
                    or x["name"] in seen or x["name"].startswith("__"):
                raise HarnessError("bad extra member")
        if d.get("parent") is not None:
            if not isinstance(d["parent"], dict) or d["parent"].get("parent") is not None:
                raise HarnessError("bad parent")
            validate(d["parent"])
    except (KeyError, TypeError):
        raise HarnessError("malformed DeclSpec")


def build_decl(d, registry=None):
    """-> the data class.  registry: dict collecting built classes by name (nested data specs)"""
    import utype
    from .entries import make_options
    validate(d)
    _n[0] += 1
    name = d.get("name", "D")
    ann, ns = {}, {}
    for fd in d["fields"]:
        T = tspec.build(fd["type"], decl_builder=lambda dd: build_decl(dd, registry))
        f = fd.get("f") or {}
        if f.get("final"):
            T = typing.Final[T]
        ann[fd["name"]] = T
        if "plain_default" in f:
            ns[fd["name"]] = codec.decode(f["plain_default"]["v"])
        elif f:
            ns[fd["name"]] = utype.Field(**field_kwargs(f))
    for x in d.get("extras") or []:
        if x["kind"] in ("method", "classmethod"):
            # a function as the class body would define it (utype recognises methods by __name__ / __qualname__)
            def member(self_or_cls):
                return 1
            member.__name__ = x["name"]
            member.__qualname__ = (f"make.<locals>.{name}" if d.get("local") else name) + "." + x["name"]
            ns[x["name"]] = classmethod(member) if x["kind"] == "classmethod" else member
        else:
            ann[x["name"]] = typing.ClassVar[int]
            ns[x["name"]] = 3
    ns["__annotations__"] = ann
    ns["__module__"] = "vf.dspec"
    ns["__qualname__"] = (f"make.<locals>.{name}" if d.get("local") else name)
    opts = make_options(d.get("options"))
    base = d["base"]
    parent = None
    if d.get("parent") is not None:
        # letter-case handling of a field is fixed when its class is declared: the parent is declared with the same choice
        popts = {k: v for k, v in (d.get("options") or {}).items() if k == "case_insensitive" or k in NAMING_KEYS}
        parent = build_decl(dict(d["parent"], base=base, name=d["parent"].get("name") or name + "Base", options=popts), registry)
    if base == "deco":
        cls = type(name, (parent,) if parent is not None else (), ns)
        cls = utype.dataclass(cls, options=opts, set_class_properties=True, contains=True, eq=True)
    else:
        if opts is not None:
            ns["__options__"] = opts
        cls = type(name, (parent if parent is not None else (utype.Schema if base == "schema" else utype.DataClass),), ns)
    if registry is not None:
        registry[name] = cls
    return cls


def cleanup():
    """drop parsers cached for harness-made classes (hygiene: utype keeps a module-global cache)"""
    from utype.parser import base
    for k in [k for k in base.__parsers__ if getattr(k, "__module__", None) in ("vf.dspec", "vf.entries")]:
        base.__parsers__.pop(k, None)


# -- names ------------------------------------------------------------------------------------------

def resolve_naming(d):
    """the same declaration with the class-level naming options written out per field (documented rule: alias_generator names the
    fields that declare no alias, alias_from_generator gives input names to the fields that declare no alias_from)"""
    o = d.get("options") or {}
    if not any(k in o for k in NAMING_KEYS):
        return d
    import json
    d = json.loads(json.dumps(d))
    ag, afg = o.get("alias_generator"), o.get("alias_from_generator")
    for fd in d["fields"] + list((d.get("parent") or {}).get("fields", [])):
        f = fd.get("f") or {}
        if ag and "alias" not in f and "alias_gen" not in f:
            f["alias_gen"] = ag
        if afg and not f.get("alias_from"):
            names = []
            for g in (afg if isinstance(afg, list) else [afg]):
                n = ALIAS_GENS[g](fd["name"])
                if n and n != fd["name"] and n not in names:
                    names.append(n)
            if names:
                f["alias_from"] = names
        if f:
            fd["f"] = f
    d["options"] = {k: v for k, v in o.items() if k not in NAMING_KEYS}
    if not d["options"]:
        d.pop("options")
    return d


def all_fields(d):
    """the fields the class ends up with: inherited ones that are not redeclared, then its own"""
    own = {fd["name"] for fd in d["fields"]}
    inherited = [fd for fd in (d.get("parent") or {}).get("fields", []) if fd["name"] not in own]
    return inherited + list(d["fields"])


def stale_names(d):
    """input names only the parent's declaration of a redeclared field accepted: unknown keys for the subclass"""
    mine = {fd["name"]: fd for fd in d["fields"]}
    taken = {n for fd in all_fields(d) for n in in_names(fd)}
    out = []
    for pf in (d.get("parent") or {}).get("fields", []):
        if pf["name"] in mine:
            for n in in_names(pf):
                if n not in taken and n not in out:
                    out.append(n)
    return out


def out_name(fd):
    f = fd.get("f") or {}
    if "alias" in f:
        return f["alias"]
    if "alias_gen" in f:
        r = ALIAS_GENS[f["alias_gen"]](fd["name"])
        return r or fd["name"]
    return fd["name"]


def in_names(fd):
    f = fd.get("f") or {}
    names = [fd["name"]]
    o = out_name(fd)
    if o not in names:
        names.append(o)
    for a in f.get("alias_from", []) or []:
        if a not in names:
            names.append(a)
    return names


def is_ci(fd, options):
    f = fd.get("f") or {}
    if f.get("case_insensitive") is not None:
        return bool(f["case_insensitive"])
    return bool((options or {}).get("case_insensitive"))


def case_variants(s):
    out = {s.upper(), s.lower(), s.capitalize(), s.swapcase(), s.title()}
    out.discard(s)
    return sorted(out)


# -- instance conformance ---------------------------------------------------------------------------

def inst_conforms(v, d, why=None):
    def no(msg):
        if why is not None and not why:
            why.append(msg)
        return False
    cls = type(v)
    if not hasattr(cls, "__parser__") or cls.__name__ != d.get("name", "D"):
        return no(f"data/not-instance:{cls.__name__}")
    is_schema = isinstance(v, dict)
    for fd in d["fields"]:
        f = fd.get("f") or {}
        on = out_name(fd)
        present = False
        val = None
        if is_schema and dict.__contains__(v, on):
            present, val = True, dict.__getitem__(v, on)
        elif fd["name"] in v.__dict__:
            present, val = True, v.__dict__[fd["name"]]
        if not present:
            continue
        if f.get("on_error") == "preserve":
            continue
        if _is_default(val, f):
            continue
        if not tspec.conforms(val, fd["type"], why, inst_conforms):
            if why is not None:
                why[0] = f"data.field/{why[0]}"
            return False
        if "c" in f:
            cons = tspec.decode_constraints({k: x for k, x in f["c"].items() if k not in f.get("lax", ())})
            if val is not None and constraints.all_hold(cons, val) is False:
                return no(f"data.field/constraint-violated:{tspec._first_violated(cons, val)}")
    return True


def _is_default(val, f):
    from .oracle import equal
    for key in ("default", "plain_default"):
        if key in f and equal(val, codec.decode(f[key]["v"])):
            return True
    if "factory" in f:
        try:
            if equal(val, FACTORIES[f["factory"]]()):
                return True
        except Exception:
            pass
    return False


# -- strategies ---------------------------------------------------------------------------------------

FIELD_NAMES = ["a", "b", "c", "d", "e"]
MIXED_CASE = {"a": "aX", "b": "Bee", "c": "cC", "d": "Dd", "e": "eE"}
FIELD_TYPES = st.sampled_from([
    {"k": "leaf", "o": "int"}, {"k": "leaf", "o": "int"}, {"k": "leaf", "o": "str"},
    {"k": "con", "o": "int", "c": {"gt": 0}}, {"k": "con", "o": "str", "c": {"max_length": 3}},
    {"k": "list", "a": {"k": "leaf", "o": "int"}}, {"k": "opt", "a": {"k": "leaf", "o": "int"}},
    {"k": "leaf", "o": "float"}, {"k": "dict", "key": {"k": "leaf", "o": "str"}, "val": {"k": "leaf", "o": "int"}},
    {"k": "union", "a": [{"k": "leaf", "o": "int"}, {"k": "list", "a": {"k": "leaf", "o": "int"}}]},
    {"k": "leaf", "o": "bool"}, {"k": "leaf", "o": "datetime"},
])

SIMPLE_DEFAULTS = {"int": [0, 7, -1], "str": ["", "dflt"], "float": [{"t": "float", "v": "1.5"}], "bool": [False],
                   "list": [{"t": "list", "v": []}, {"t": "list", "v": [1, 2]}], "dict": [{"t": "dict", "v": []}],
                   "opt": [None, 3], "union": [0], "con": [1, "x"], "datetime": [{"t": "datetime", "v": "2020-01-01T00:00:00"}]}


def _default_for(t):
    key = t.get("o") if t["k"] in ("leaf",) else t["k"]
    if t["k"] == "con":
        return st.sampled_from([1, 5] if t["o"] == "int" else ["x", "ab"])
    return st.sampled_from(SIMPLE_DEFAULTS.get(key, [0]))


@st.composite
def field_spec(draw, t, name, others, rich=True, allow_required_modes=True):
    """one FieldSpec; legality rules of Field.__init__ mirrored by construction"""
    f = {}
    shape = draw(st.sampled_from(["bare", "bare", "plain_default", "field"] + (["field"] * 3 if rich else [])))
    if shape == "bare":
        return f
    if shape == "plain_default":
        f["plain_default"] = {"v": draw(_default_for(t))}
        return f
    dflt = draw(st.sampled_from(["none", "none", "default", "factory"]))
    if dflt == "default":
        f["default"] = {"v": draw(_default_for(t))}
    elif dflt == "factory" and (t["k"] in ("list", "dict") or t.get("o") == "int"):
        f["factory"] = {"list": "list", "dict": "dict"}.get(t["k"], "five")
    has_default = "default" in f or "factory" in f
    mode = draw(st.sampled_from([None, None, None, "r", "w", "ra", "wa"]))
    if mode:
        if draw(st.booleans()) and mode in ("r", "w"):
            f["readonly" if mode == "r" else "writeonly"] = True
        else:
            f["mode"] = mode
    req = draw(st.sampled_from([None, None, True, False, False] + (["r", "w", "a"] if allow_required_modes else [])))
    if isinstance(req, str) and mode and req not in mode:
        req = None
    if req is not None:
        f["required"] = req
    if has_default and draw(st.booleans()) and draw(st.booleans()):
        f["defer_default"] = True
    al = draw(st.sampled_from(["none", "none", "str", "gen"]))
    if al == "str":
        f["alias"] = draw(st.sampled_from([name + "Alias", name.upper() + "_x", "@" + name, name + "-k", "ß" + name, name + "ς"]))
    elif al == "gen":
        f["alias_gen"] = draw(st.sampled_from(["upper", "camel"]))
    if draw(st.booleans()):
        k = draw(st.integers(1, 2))
        f["alias_from"] = [f"{name}{i}" for i in range(1, k + 1)] if draw(st.booleans()) else [f"{name}_Alt", f"Straße{name}"][:k]
    ci = draw(st.sampled_from([None, None, None, True, False]))
    if ci is not None:
        f["case_insensitive"] = ci
    ni = draw(st.sampled_from([False] * 5 + [True, "r", "w", "a", "fn:falsy"]))
    if ni and not (isinstance(ni, str) and not ni.startswith("fn:") and mode and ni not in mode):
        f["no_input"] = ni
    no = draw(st.sampled_from([False] * 5 + [True, "r", "w", "fn:none"]))
    if no and not (isinstance(no, str) and not no.startswith("fn:") and mode and no not in mode):
        f["no_output"] = no
    if others and draw(st.booleans()) and draw(st.booleans()):
        f["dependencies"] = [draw(st.sampled_from(others))]
    oe = draw(st.sampled_from([None, None, None, "exclude", "preserve", "throw"]))
    required_effective = f.get("required", None if has_default else True)
    if oe and not (oe == "exclude" and (required_effective is None and not has_default or required_effective)):
        f["on_error"] = oe
    if draw(st.booleans()) and draw(st.booleans()):
        f["immutable"] = True
    return f


@st.composite
def decl_specs(draw, rich=True, bases=("schema", "schema", "dataclass", "deco"), options=None, max_fields=4,
               field_types=None, name="D", names=None, inherit=False, extras=False):
    if names is None:
        n = draw(st.integers(1, max_fields))
        names = FIELD_NAMES[:n]
        if draw(st.integers(0, 3)) == 0:
            # declared spellings with capitals (what case-insensitive matching lower-cases on one side has to be lower-cased on the other)
            names = [MIXED_CASE[x] if draw(st.booleans()) else x for x in names]
    fields = []
    for i, nm in enumerate(names):
        t = draw(field_types or FIELD_TYPES)
        others = [x for x in names if x != nm]
        f = draw(field_spec(t, nm, others, rich=rich))
        fd = {"name": nm, "type": t}
        if f:
            fd["f"] = f
        fields.append(fd)
    d = {"name": name, "base": draw(st.sampled_from(list(bases))), "fields": fields}
    o = draw(options) if options is not None else {}
    if o:
        d["options"] = o
    if extras and draw(st.integers(0, 3)) == 0:
        # methods / ClassVars of the class, often named like an accepted input name of one of its fields
        pool = [n for fd in fields for n in in_names(fd)[1:] if n.isidentifier()] * 2 + ["helper", "total"]
        taken = {fd["name"] for fd in fields}
        xs = []
        for n in draw(st.lists(st.sampled_from(pool), min_size=1, max_size=2, unique=True)):
            if n not in taken:
                xs.append({"kind": draw(st.sampled_from(["method", "classmethod", "classvar"])), "name": n})
        if xs:
            d["extras"] = xs
    if inherit and draw(st.integers(0, 2)) == 0:
        # a parent of the same kind; the subclass redeclares some of its fields (different aliases, defaults, ...) and adds others
        pnames = draw(st.lists(st.sampled_from(FIELD_NAMES), min_size=1, max_size=3, unique=True))
        d["parent"] = draw(decl_specs(rich=rich, bases=(d["base"],), max_fields=max_fields, field_types=field_types,
                                      name=name + "Base", names=sorted(pnames)))
        # utype refuses a redeclaration that changes the field's output name: keep alias / alias_gen, vary the rest
        # (alias_from in particular: names only the parent's declaration accepted must be unknown to the subclass)
        pf = {fd["name"]: fd.get("f") or {} for fd in d["parent"]["fields"]}
        for fd in fields:
            if fd["name"] in pf and draw(st.integers(0, 3)) > 0:
                f = dict(fd.get("f") or {})
                if "plain_default" in f and ("alias" in pf[fd["name"]] or "alias_gen" in pf[fd["name"]]):
                    continue
                for k in ("alias", "alias_gen"):
                    f.pop(k, None)
                    if k in pf[fd["name"]]:
                        f[k] = pf[fd["name"]][k]
                if "plain_default" not in pf[fd["name"]] and "plain_default" not in f and draw(st.booleans()):
                    # the parent's declaration accepts a name the redeclaration does not list
                    pfd = [x for x in d["parent"]["fields"] if x["name"] is fd["name"] or x["name"] == fd["name"]][0]
                    pfd["f"] = dict(pfd.get("f") or {}, alias_from=list((pfd.get("f") or {}).get("alias_from") or []) + [fd["name"] + "_old"])
                    if draw(st.booleans()):
                        f.pop("alias_from", None)
                if f:
                    fd["f"] = f
                else:
                    fd.pop("f", None)
    return d


CLASS_OPTIONS = st.fixed_dictionaries({}, optional={
    "mode": st.sampled_from(["r", "w", "a"]),
    "case_insensitive": st.just(True),
    "addition": st.sampled_from([True, False, "int"]),
    "ignore_required": st.just(True),
    "no_default": st.just(True),
    "defer_default": st.just(True),
    "ignore_alias_conflicts": st.just(True),
    "max_params": st.integers(1, 4),
    "min_params": st.integers(1, 3),
    "invalid_values": st.sampled_from(["exclude", "preserve"]),
})


NAMING_OPTIONS = st.fixed_dictionaries({}, optional={
    "alias_generator": st.sampled_from(["upper", "camel"]),
    "alias_from_generator": st.one_of(st.sampled_from(["suffix", "twice", "upper"]), st.just(["suffix", "twice"])),
})


CLASS_AND_NAMING_OPTIONS = st.tuples(CLASS_OPTIONS, st.one_of(st.just({}), st.just({}), NAMING_OPTIONS)).map(lambda t: dict(t[0], **t[1]))


def key_candidates(d, options=None):
    """(field name or None, key) pairs an input may use"""
    # names the class-level input-name generator would give to fields that declare their own alias_from: unknown keys (documented)
    afg = (d.get("options") or {}).get("alias_from_generator")
    overridden = []
    if afg:
        for fd in d["fields"] + list((d.get("parent") or {}).get("fields", [])):
            if (fd.get("f") or {}).get("alias_from"):
                overridden += [ALIAS_GENS[g](fd["name"]) for g in (afg if isinstance(afg, list) else [afg])]
    d = resolve_naming(d)
    opts = options if options is not None else d.get("options")
    out = []
    for fd in all_fields(d):
        for nm in in_names(fd):
            out.append((fd["name"], nm))
            for cv in case_variants(nm)[:3]:
                out.append((fd["name"], cv))
    out += [(None, "extra"), (None, "x1"), (None, "Extra"), (None, "zz")]
    out += [(None, n) for n in stale_names(d)]
    taken = {k for _, k in out}
    out += [(None, n) for n in overridden if n not in taken] * 3
    return out


def field_values(fd):
    """values for one field: valid / convertible / invalid"""
    t = fd["type"]
    return st.one_of(gen.conforming(t), gen.conforming(t), st.sampled_from(["abc", None, {"t": "list", "v": ["x"]}, {"t": "obj"}, -5, 0, "", "12345",
                                                                              # (int refuses these with OverflowError, not TypeError / ValueError)
                                                                              "inf", {"t": "float", "v": "inf"}, "-Infinity"]))


def _equal_twin(v):
    """a value that compares equal to v but is not the same value (True/1, 1/1.0, 0/False): no alias conflict, yet it converts differently"""
    if v is True or v is False:
        return int(v)
    if isinstance(v, int):
        return bool(v) if v in (0, 1) else {"t": "float", "v": repr(float(v))}
    return v


def inputs_for(d, options=None):
    """strategy: ValueSpec of a dict input for decl d"""
    cands = key_candidates(d, options)          # (before the naming options are written out: it lists the overridden generator names)
    d = resolve_naming(d)
    by_field = {fd["name"]: fd for fd in all_fields(d)}
    known = {k for n, k in cands if n is not None}
    # names that look like input names of a field but are not: only the parent's declaration accepted them, or the class-level
    # generator would have made them had the field not declared its own alias_from
    stale = stale_names(d) + sorted({k for n, k in cands if n is None and k not in ("extra", "x1", "Extra", "zz") and k not in known})

    @st.composite
    def build(draw):
        pairs = []
        used = set()
        # usually one key per field, sometimes none, sometimes two names of the same field
        for fd in all_fields(d):
            mine = [k for (n, k) in cands if n == fd["name"]]
            how = draw(st.sampled_from(["primary", "primary", "any", "any", "skip", "two"]))
            if how == "skip":
                continue
            keys = [mine[0]] if how == "primary" else [draw(st.sampled_from(mine))]
            if how == "two" and len(mine) > 1:
                keys.append(draw(st.sampled_from(mine)))
            val = draw(field_values(fd))
            for j, k in enumerate(keys):
                if k in used:
                    continue
                used.add(k)
                how2 = "same" if j == 0 else draw(st.sampled_from(["same", "same", "twin", "fresh", "fresh"]))
                v = val if how2 == "same" else _equal_twin(val) if how2 == "twin" else draw(field_values(fd))
                pairs.append([k, v])
        for _ in range(draw(st.sampled_from([0, 0, 0, 1, 2]))):
            k = draw(st.sampled_from([k for (n, k) in cands if n is None]))
            if k not in used:
                used.add(k)
                pairs.append([k, draw(st.sampled_from([1, "7", "x", None, {"t": "list", "v": [1]}]))])
        if stale and draw(st.booleans()):
            # a name that only the parent's declaration of a redeclared field accepted
            k = draw(st.sampled_from(stale))
            if k not in used:
                used.add(k)
                pairs.append([k, draw(st.sampled_from([1, "7", "x", {"t": "list", "v": [1]}]))])
        pairs = draw(st.permutations(pairs)) if len(pairs) > 1 and draw(st.booleans()) else pairs
        return {"t": "dict", "v": [list(p) for p in pairs]}
    return build()


def from_data(cls):
    """callable(data: dict) -> instance, for every base (@utype.dataclass classes have no __from__)"""
    f = getattr(cls, "__from__", None)
    if f is not None:
        return f
    return lambda data: cls(**data)
