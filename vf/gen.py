"""Hypothesis strategies producing specs (JSON), never live objects."""
import datetime as dt
import math

from hypothesis import strategies as st

from . import codec

# -- scalars --------------------------------------------------------------------------------------

SPECIAL_STRS = [
    "", " ", "0", "1", "-1", "+1", " 1 ", "1.0", "1.5", "-0.0", "1e3", "1E400", "-1e400", "inf", "-inf",
    "Infinity", "-Infinity", "NaN", "nan", "sNaN", "0x10", "1_0", "١٢٣", "１２", "true", "True", "TRUE", "false",
    "False", "yes", "no", "on", "off", "t", "f", "y", "n", "null", "None", "nil", "NULL", "[]", "[1, 2]", "[1,",
    "(1, 2)", "{}", '{"a": 1}', "{'a': 1}", "{1, 2}", "a,b", "1,2,3", "1;2", "a=1&b=2", "a=1;b=2", "a=1,b=2",
    "2020-01-02", "2020-13-02", "2020-01-02 03:04:05", "2020-01-02T03:04:05", "2020-01-02T03:04:05Z",
    "2020-01-02T03:04:05.123456", "2020-01-02T03:04:05+08:00", "2020-01-02T03:04:05-05:00", "2020-01-02 03:04:05 +0800",
    "Thu, 02 Jan 2020 03:04:05 GMT", "02/01/2020", "20200102", "03:04:05", "03:04", "25:00:00", "03:04:05.123",
    "P1DT2H3M4S", "-P1D", "PT0.5S", "1 day, 2:03:04", "1 2:03:04", "-1:00:00", "3.5", "1e-7",
    "12345678-1234-5678-1234-567812345678", "{12345678-1234-5678-1234-567812345678}", "not-a-uuid",
    "red", "RED", "green", "ONE", "1.", ".5", "1e", "--1", "1/2", "abc", "é", "ß", "\x00", "\ud800",
    "9" * 30, "0" * 5 + "7", "1" + "0" * 400,
]

SPECIAL_FLOATS = ["nan", "inf", "-inf", "-0.0", "0.0", "1.0", "-1.0", "0.5", "1.5", "2.5", "-2.5", "1e16", "1e22", "1e300",
                  "-1e300", "5e-324", "1.7976931348623157e+308", "0.1", "0.30000000000000004", "9007199254740993.0",
                  "1577934245.0", "2e10", "2.0000000001e10", "1e-7", "123.456", "99.99"]
SPECIAL_DECIMALS = ["0.12345678901234567890", "2.000000000000000000001", "-1.2345678901234567890123", "123456.7890123456789", "0", "-0", "1", "1.0", "1.50", "1.500", "0.0123", "99.99", "123.456", "1E+3", "12E+2", "9.99E+3",
                    "0E+2", "1E-7", "NaN", "sNaN", "Infinity", "-Infinity", "1E+400", "-1E+400", "1E-400",
                    "123456789012345678901234567890", "0.1", "1577934245", "3.0", "2.50"]
SPECIAL_INTS = [0, 1, -1, 2, 3, 7, 10, 100, 255, 1000, 2 ** 31, 2 ** 53, 2 ** 53 + 1, -2 ** 63, 10 ** 30, -(10 ** 30),
                10 ** 400, -(10 ** 400), 1577934245, 1577934245000, 20000000000, 20000000001]


def _int_spec(i):
    if i.bit_length() > 10000:
        return {"t": "int", "hex": hex(i)}
    return i if abs(i) < codec.BIG else {"t": "int", "v": str(i)}


# values whose text form fails: ints beyond the interpreter's decimal-digit limit (str/repr raise ValueError), containers nested
# beyond the recursion limit (repr raises RecursionError)
unprintable = st.one_of(
    st.sampled_from([10 ** 5000, -(10 ** 5000), 10 ** 5000 + 7]).map(_int_spec),
    st.tuples(st.sampled_from(["list", "tuple", "dict"]), st.sampled_from([1200, 3000]), st.integers(1, 3), st.sampled_from([1, "a", None])
              ).map(lambda t: {"t": "deep", "c": t[0], "n": t[1], "w": t[2], "leaf": t[3]}))


ints = st.one_of(st.sampled_from(SPECIAL_INTS), st.integers(-20, 20), st.integers()).map(_int_spec)
floats = st.one_of(
    st.sampled_from(SPECIAL_FLOATS),
    st.floats(allow_nan=True, allow_infinity=True).map(repr),
    st.integers(-50, 50).map(lambda i: repr(i / 4)),
).map(lambda s: {"t": "float", "v": s})
decimals = st.one_of(
    st.sampled_from(SPECIAL_DECIMALS),
    st.decimals(allow_nan=True, allow_infinity=True, places=None).map(str),
    st.tuples(st.integers(-99999, 99999), st.integers(-6, 4)).map(lambda t: f"{t[0]}E{t[1]}"),
).map(lambda s: {"t": "decimal", "v": s})
strs = st.one_of(st.sampled_from(SPECIAL_STRS), st.text(max_size=8),
                 st.integers(-1000, 1000).map(str), st.floats(allow_nan=False, allow_infinity=False, width=32).map(repr))
bytes_hex = st.one_of(
    st.sampled_from(SPECIAL_STRS[:60]).map(lambda s: s.encode("utf-8", "surrogatepass").hex()),
    st.binary(max_size=6).map(bytes.hex),
    st.sampled_from(["ff", "c328", "e282", "80", "00", "31ff"]),
)
bytes_ = bytes_hex.map(lambda h: {"t": "bytes", "v": h})
bytearrays = bytes_hex.map(lambda h: {"t": "bytearray", "v": h})
memviews = bytes_hex.map(lambda h: {"t": "memoryview", "v": h})
complexes = st.tuples(st.sampled_from(["0.0", "1.0", "1.5", "nan", "inf", "-2.0"]),
                      st.sampled_from(["0.0", "0.0", "1.0", "-0.0", "nan"])).map(
    lambda t: {"t": "complex", "re": t[0], "im": t[1]})

dates = st.dates().map(lambda d: {"t": "date", "v": d.isoformat()})
_tz = st.one_of(st.none(), st.sampled_from([0, 60, -300, 330, 480, -720, 840]).map(
    lambda m: dt.timezone(dt.timedelta(minutes=m))))
datetimes = st.builds(
    lambda d, tz, us: d.replace(microsecond=us, tzinfo=tz),
    st.datetimes(min_value=dt.datetime(1, 1, 2), max_value=dt.datetime(9999, 12, 30)), _tz,
    st.sampled_from([0, 0, 1, 123000, 123456, 999999]),
).map(lambda d: {"t": "datetime", "v": d.isoformat()})
times = st.times().map(lambda t: {"t": "time", "v": t.isoformat()})
timedeltas = st.one_of(
    st.sampled_from([[0, 0, 0], [1, 0, 0], [-1, 0, 0], [0, 1, 500000], [0, 0, 1], [-1, 86399, 999999], [999, 3661, 0]]),
    st.tuples(st.integers(-1000, 1000), st.integers(0, 86399), st.integers(0, 999999)).map(list),
).map(lambda v: {"t": "timedelta", "v": v})
uuids = st.uuids().map(lambda u: {"t": "uuid", "v": str(u)})
enums = st.sampled_from([("Color", "RED"), ("Color", "GREEN"), ("Num", "ONE"), ("Num", "TWO"), ("Plain", "A"), ("Plain", "B")]
                        ).map(lambda t: {"t": "enum", "e": t[0], "m": t[1]})
objs = st.just({"t": "obj"})
classes = st.sampled_from(list(codec.CLASSES)).map(lambda n: {"t": "cls", "v": n})
evils = st.sampled_from(codec.EVIL_KINDS).map(lambda k: {"t": "evil", "v": k})
subs = st.one_of(
    st.integers(-5, 5).map(lambda i: {"t": "sub", "b": "int", "v": i}),
    st.sampled_from(["", "1", "a"]).map(lambda s: {"t": "sub", "b": "str", "v": s}),
    st.sampled_from(["1.5", "nan"]).map(lambda s: {"t": "sub", "b": "float", "v": {"t": "float", "v": s}}),
)

scalars = st.one_of(st.none(), st.booleans(), ints, floats, decimals, strs, bytes_, dates, datetimes, times,
                    timedeltas, uuids, enums)
hashable_scalars = st.one_of(st.none(), st.booleans(), ints, strs, floats, bytes_, enums, dates)
odd_scalars = st.one_of(bytearrays, memviews, complexes, objs, classes, subs)


def hostile(max_leaves=8, evil=False):
    """any Python value, irrespective of the target type"""
    base = st.one_of(scalars, scalars, odd_scalars) if not evil else st.one_of(scalars, odd_scalars, evils)

    def extend(children):
        lst = st.lists(children, max_size=4)
        hl = st.lists(hashable_scalars, max_size=4)
        return st.one_of(
            lst.map(lambda v: {"t": "list", "v": v}),
            lst.map(lambda v: {"t": "tuple", "v": v}),
            hl.map(lambda v: {"t": "set", "v": v}),
            hl.map(lambda v: {"t": "frozenset", "v": v}),
            lst.map(lambda v: {"t": "deque", "v": v}),
            lst.map(lambda v: {"t": "iter", "v": v}),
            lst.map(lambda v: {"t": "gen", "v": v}),
            st.lists(st.tuples(hashable_scalars, children).map(list), max_size=4).map(lambda v: {"t": "dict", "v": v}),
            st.lists(st.tuples(strs, children).map(list), max_size=4).map(lambda v: {"t": "dict", "v": v}),
            st.tuples(st.integers(-3, 3), st.integers(-3, 6)).map(lambda t: {"t": "range", "v": list(t)}),
            st.lists(children, max_size=2).map(lambda v: {"t": "sub", "b": "list", "v": {"t": "list", "v": v}}),
        )
    return st.recursive(base, extend, max_leaves=max_leaves)


# -- type specs -----------------------------------------------------------------------------------

LEAF_ORIGINS = ["none", "bool", "int", "float", "decimal", "complex", "str", "bytes", "bytearray", "list", "tuple",
                "set", "frozenset", "dict", "date", "datetime", "time", "timedelta", "uuid"]
HASHABLE_ORIGINS = ["bool", "int", "float", "decimal", "str", "bytes", "date", "datetime", "uuid", "none"]

leaf = st.sampled_from(LEAF_ORIGINS).map(lambda o: {"k": "leaf", "o": o})
hashable_leaf = st.sampled_from(HASHABLE_ORIGINS).map(lambda o: {"k": "leaf", "o": o})
enum_t = st.sampled_from(["Color", "Num", "Plain"]).map(lambda e: {"k": "enum", "e": e})
modes = st.sampled_from(["annotate", "annotate", "class", "typing"])


@st.composite
def num_bounds(draw, o):
    """legal range constraints for int/float/decimal (mirrors validate_bounds)"""
    if o == "int":
        val = st.integers(-10, 10).map(_int_spec)
    elif o == "float":
        val = st.one_of(st.integers(-10, 10).map(lambda i: {"t": "float", "v": repr(i / 2)}),
                        st.integers(-10, 10).map(_int_spec))
    else:
        val = st.one_of(st.integers(-1000, 1000).map(lambda i: {"t": "decimal", "v": str(i / 100)}),
                        st.integers(-10, 10).map(_int_spec))
    c = {}
    lo = draw(st.sampled_from([None, "gt", "ge"]))
    hi = draw(st.sampled_from([None, "lt", "le"]))
    a = draw(val)
    if lo and hi:
        # same python type for both, hi - lo >= 2
        av = codec.decode(a)
        step = draw(st.integers(2, 6))
        if isinstance(av, int):
            b = _int_spec(av + step)
        elif isinstance(av, float):
            b = {"t": "float", "v": repr(av + step / 2)}
        else:
            b = {"t": "decimal", "v": str(av + step)}
        c[lo], c[hi] = a, b
    elif lo:
        c[lo] = a
    elif hi:
        c[hi] = a
    return c


REGEXES = [r"\d+", r"[a-z]+", r"a.c", r"\d{2,4}", r"[A-Z][a-z]*", r"(ab)*", r"-?\d+(\.\d+)?", r".*", r"a|bc", r"\w+@\w+",
           r"[a-z0-9]+(?:-[a-z0-9]+)*", r"\d+\n?", r"(?i)ab+"]


@st.composite
def constrained(draw, lax_ok=False, origins=None, with_args=False):
    o = draw(st.sampled_from(origins or ["int", "int", "float", "decimal", "str", "str", "bytes", "list", "tuple",
                                         "set", "dict", "date", "datetime", "timedelta", "time"]))
    c = {}
    lax = []
    fam = draw(st.sampled_from(["range", "length", "digits", "regex", "const", "enum", "multi", "unique", "mixed"]))
    if o in ("int", "float", "decimal"):
        if fam in ("range", "mixed"):
            c.update(draw(num_bounds(o)))
        if fam in ("digits", "mixed"):
            if draw(st.booleans()):
                c["max_digits"] = draw(st.integers(1, 6))
            if o != "int" and draw(st.booleans()):
                dp = draw(st.integers(0, 4))
                if "max_digits" not in c or c["max_digits"] >= dp:
                    c["decimal_places"] = dp
        if fam == "multi" or (fam == "mixed" and draw(st.booleans())):
            if o == "float":
                c["multiple_of"] = draw(st.sampled_from([2, 3, 5, {"t": "float", "v": "0.5"}, {"t": "float", "v": "0.25"},
                                                         {"t": "float", "v": "0.1"}, 10]))
            else:
                c["multiple_of"] = draw(st.sampled_from([2, 3, 5, 7, 10, 100]))
        if fam == "length":
            c[draw(st.sampled_from(["length", "max_length", "min_length"]))] = draw(st.integers(1, 4))
        if fam == "const":
            c = {"const": draw({"int": st.integers(-3, 3).map(_int_spec),
                                "float": st.sampled_from(["1.0", "0.5", "-0.0", "2.0"]).map(lambda s: {"t": "float", "v": s}),
                                "decimal": st.sampled_from(["1", "1.0", "0.50"]).map(lambda s: {"t": "decimal", "v": s})}[o])}
        if fam == "enum":
            vals = draw(st.lists(st.integers(-3, 3), min_size=1, max_size=3, unique=True))
            if o == "int":
                c = {"enum": draw(st.sampled_from([vals, vals, vals, {"enumcls": "Num"}, {"enumcls": "Plain"}]))}
            elif o == "float":
                c = {"enum": [{"t": "float", "v": repr(float(x))} for x in vals]}
            else:
                c = {"enum": [{"t": "decimal", "v": str(x)} for x in vals]}
    elif o in ("str", "bytes"):
        if fam in ("length", "mixed", "range", "digits", "multi", "unique"):
            kind = draw(st.sampled_from(["length", "minmax", "max", "min"]))
            if kind == "length":
                c["length"] = draw(st.integers(0, 4))
            else:
                lo = draw(st.integers(1, 3))
                if kind in ("minmax", "min"):
                    c["min_length"] = lo
                if kind in ("minmax", "max"):
                    c["max_length"] = lo + draw(st.integers(0, 3))
        if o == "str" and fam in ("regex", "mixed"):
            c["regex"] = draw(st.sampled_from(REGEXES))
        if fam == "const":
            c = {"const": draw(st.sampled_from(["a", "", "abc", "1"])) if o == "str" else
                 {"t": "bytes", "v": draw(st.sampled_from(["61", "", "313233"]))}}
        if fam == "enum":
            if o == "str":
                c = {"enum": draw(st.one_of(st.lists(st.sampled_from(["a", "b", "", "red", "1"]), min_size=1, max_size=3, unique=True),
                                            st.just({"enumcls": "Color"}), st.just({"enumcls": "Plain"})))}
            else:
                c = {"enum": [{"t": "bytes", "v": h} for h in draw(st.lists(st.sampled_from(["61", "62", ""]), min_size=1, max_size=2, unique=True))]}
    elif o in ("list", "tuple", "set", "dict"):
        kind = draw(st.sampled_from(["length", "minmax", "max", "min", "none"]))
        if kind == "length":
            c["length"] = draw(st.integers(0, 3))
        elif kind != "none":
            lo = draw(st.integers(1, 2))
            if kind in ("minmax", "min"):
                c["min_length"] = lo
            if kind in ("minmax", "max"):
                c["max_length"] = lo + draw(st.integers(0, 2))
        if o in ("list", "tuple") and (fam in ("unique", "mixed") or not c):
            c["unique_items"] = True
        if not c:
            c["max_length"] = 3
    elif o in ("date", "datetime", "timedelta", "time"):
        base = {"date": {"t": "date", "v": "2020-01-15"}, "datetime": {"t": "datetime", "v": "2020-01-15T12:00:00"},
                "timedelta": {"t": "timedelta", "v": [1, 0, 0]}, "time": {"t": "time", "v": "12:00:00"}}[o]
        c[draw(st.sampled_from(["gt", "ge", "lt", "le"]))] = base
    if not c:
        c["max_length"] = 5
    if lax_ok:
        for name in list(c):
            if name in ("ge", "le", "length", "max_length", "multiple_of", "max_digits", "decimal_places", "const",
                        "enum", "unique_items") and draw(st.booleans()):
                lax.append(name)
    spec = {"k": "con", "o": o, "c": c, "m": draw(modes)}
    if lax:
        spec["lax"] = lax
    if with_args and o in ("list", "set") and draw(st.booleans()):
        # a constrained container WITH an item type: size constraints meet element conversion (equal-after-conversion members)
        spec["args"] = [draw(st.sampled_from([{"k": "leaf", "o": "int"}, {"k": "leaf", "o": "str"}, {"k": "leaf", "o": "float"},
                                              {"k": "con", "o": "int", "c": {"gt": 0}}]))]
        spec["m"] = "annotate"
    return spec


literal_t = st.one_of(
    st.lists(st.one_of(st.integers(-2, 2), st.sampled_from(["a", "b", "1", ""]), st.booleans(), st.none()),
             min_size=1, max_size=3, unique_by=lambda x: (type(x).__name__, x)),
).map(lambda v: {"k": "lit", "v": v})


def type_specs(max_leaves=5, lax_ok=False, logical=True, data=None, with_args=False):
    base = st.one_of(leaf, leaf, constrained(lax_ok=lax_ok, with_args=with_args), constrained(lax_ok=lax_ok, with_args=with_args), enum_t, literal_t)
    if data is not None:
        base = st.one_of(base, data)
    hbase = st.one_of(hashable_leaf, constrained(lax_ok=lax_ok, origins=["int", "str", "float", "decimal"]), enum_t)

    def extend(children):
        opts = [
            st.tuples(children, modes).map(lambda t: {"k": "list", "a": t[0], "m": t[1]}),
            st.tuples(hbase, modes).map(lambda t: {"k": "set", "a": t[0], "m": t[1]}),
            st.tuples(hbase, modes).map(lambda t: {"k": "frozenset", "a": t[0], "m": t[1]}),
            st.tuples(children, modes).map(lambda t: {"k": "tuplev", "a": t[0], "m": t[1]}),
            st.tuples(st.lists(children, min_size=1, max_size=3), modes).map(lambda t: {"k": "tuple", "a": t[0], "m": t[1]}),
            st.tuples(hbase, children, modes).map(lambda t: {"k": "dict", "key": t[0], "val": t[1], "m": t[2]}),
            st.tuples(children, modes).map(lambda t: {"k": "opt", "a": t[0], "m": t[1]}),
        ]
        if logical:
            lm = st.sampled_from(["annotate", "op", "typing"])
            opts += [
                st.tuples(st.lists(children, min_size=2, max_size=3), lm).map(lambda t: {"k": "union", "a": t[0], "m": t[1]}),
                st.tuples(st.lists(children, min_size=2, max_size=3), lm).map(lambda t: {"k": "union", "a": t[0], "m": t[1]}),
                st.tuples(st.lists(children, min_size=2, max_size=3), lm).map(lambda t: {"k": "xor", "a": t[0], "m": t[1]}),
                st.tuples(children, children, lm).map(lambda t: {"k": "and", "a": [t[0], {"k": "not", "a": t[1], "m": t[2]}], "m": t[2]}),
            ]
        return st.one_of(*opts)
    return st.recursive(base, extend, max_leaves=max_leaves)


# -- type-directed values ---------------------------------------------------------------------------

def _wrap_list(x):
    return {"t": "list", "v": [x]}


def _num_str(v):
    x = codec.decode(v)
    return str(x)


def conforming(spec):
    """strategy for ValueSpecs aimed at *spec*: conforming, convertible, boundary and near-miss values"""
    k = spec["k"]
    if k == "any":
        return scalars
    if k == "leaf" or k == "con":
        o = spec.get("o")
        base = {
            "none": st.one_of(st.none(), st.sampled_from(["null", "None", "nil", "NULL", ""])),
            "bool": st.one_of(st.booleans(), st.sampled_from([0, 1, "true", "False", "yes", "0", "on", "f", "2", "abc"]),
                              st.sampled_from(["1.0", "0.0"]).map(lambda s: {"t": "float", "v": s})),
            "int": st.one_of(ints, st.integers(-12, 12), st.integers(-12, 12).map(str), st.integers(-12, 12).map(lambda i: {"t": "float", "v": repr(float(i))}),
                             st.integers(-12, 12).map(lambda i: {"t": "decimal", "v": str(i)}), st.booleans(),
                             st.integers(-40, 40).map(lambda i: {"t": "float", "v": repr(i / 4)}), st.integers(-300, 300)),
            "float": st.one_of(floats, st.integers(-12, 12), st.integers(-50, 50).map(lambda i: repr(i / 4)),
                               st.integers(-500, 500).map(lambda i: {"t": "decimal", "v": str(i / 100)})),
            "decimal": st.one_of(decimals, st.integers(-12, 12), st.integers(-5000, 5000).map(lambda i: f"{i / 1000}"),
                                 st.integers(-50, 50).map(lambda i: {"t": "float", "v": repr(i / 4)})),
            "complex": st.one_of(complexes, floats, ints, st.sampled_from(["1+2j", "1", "j"])),
            "str": st.one_of(strs, bytes_, ints, st.sampled_from(["a", "ab", "abc", "abcd", "abcde", "12", "123", "1234", "12345", "abc\n", "a-b", "Ab", "ABc", "bc", "x@y"])),
            "bytes": st.one_of(bytes_, strs, bytearrays, st.sampled_from(["a", "ab", "abc", "abcd"])),
            "bytearray": st.one_of(bytearrays, bytes_, strs),
            "list": st.one_of(_seq_of(scalars, "list"), _seq_of(scalars, "tuple"), st.sampled_from(["[1, 2]", "a,b", "1", "[1, 1]"]), _seq_of(hashable_scalars, "set")),
            "tuple": st.one_of(_seq_of(scalars, "tuple"), _seq_of(scalars, "list"), st.sampled_from(["(1, 2)", "a,b"])),
            "set": st.one_of(_seq_of(hashable_scalars, "set"), _seq_of(hashable_scalars, "list"), st.sampled_from(["{1, 2}", "a,b", "[1, 1]"])),
            "frozenset": st.one_of(_seq_of(hashable_scalars, "frozenset"), _seq_of(hashable_scalars, "list")),
            "dict": st.one_of(_dict_of(strs, scalars), st.sampled_from(['{"a": 1}', "a=1&b=2", "a=1;b=2", "{'a': 1, 'b': 2}"]),
                              st.lists(st.tuples(strs, ints).map(lambda t: {"t": "tuple", "v": list(t)}), max_size=3).map(lambda v: {"t": "list", "v": v})),
            "date": st.one_of(dates, datetimes, st.sampled_from(["2020-01-15", "2020-01-14", "2020-01-16", "2020-01-15 00:00:00", "2020-01-15 10:00:00", "15/01/2020", 1579046400, "1579046400"])),
            "datetime": st.one_of(datetimes, dates, st.sampled_from(["2020-01-15T12:00:00", "2020-01-15 12:00:01", "2020-01-15T11:59:59", "2020-01-15T12:00:00Z", "2020-01-15T12:00:00+08:00", "2020-01-15T12:00:00-08:00", 1579089600, 1579089600000, "1579089600.5"]),
                                  st.just({"t": "float", "v": "1579089600.25"}), floats, decimals),
            "time": st.one_of(times, st.sampled_from(["12:00:00", "12:00:01", "11:59:59", "12:00", "12:00:00.5", "1:2:3"]), datetimes),
            "timedelta": st.one_of(timedeltas, st.sampled_from([86400, 86399, 86401, "86400", "1 00:00:00", "P1D", "P1DT1S", "-P1D", "24:00:00", "1 day, 0:00:00"]),
                                   st.sampled_from(["86400.5", "0.000001"]).map(lambda s: {"t": "float", "v": s})),
            "uuid": st.one_of(uuids, uuids.map(lambda u: u["v"]), uuids.map(lambda u: {"t": "bytes", "v": u["v"].encode().hex()}), st.integers(0, 2 ** 64).map(_int_spec)),
        }.get(o, scalars)
        extra = []
        if k == "con" and spec.get("args") and o in ("list", "set"):
            a = spec["args"][0]
            el = st.one_of(conforming(a), exact_values(a), st.sampled_from([1, "1", {"t": "float", "v": "1.0"}, {"t": "float", "v": "1.5"}, True, 2, "2", "a", "b"]))
            base = st.one_of(base, st.lists(el, max_size=5).map(lambda v: {"t": "list", "v": v}), st.lists(el, max_size=5).map(lambda v: {"t": "tuple", "v": v}))
        if k == "con":
            extra = boundary_values(spec)
        opts = [base, base, base.map(_wrap_list)]
        if extra:
            opts += [st.sampled_from(extra), st.sampled_from(extra)]
        if k == "con" and ("max_digits" in spec.get("c", {}) or "decimal_places" in spec.get("c", {})):
            # numbers written with a positive exponent: their digits are not all in the coefficient
            md = spec["c"].get("max_digits", 3)
            expo = [{"t": "decimal", "v": f"1E+{md}"}, {"t": "decimal", "v": f"1E+{max(md - 1, 0)}"}, {"t": "decimal", "v": "12E+7"}, {"t": "decimal", "v": "9E+1"},
                    {"t": "float", "v": "1e16"}, {"t": "float", "v": "3e18"}, {"t": "float", "v": "1.5e17"}, "3e18", "12e7", "1e2", "1E+1",
                    {"t": "bytes", "v": "3165" + "32"}, {"t": "decimal", "v": "1.5E+3"}]
            opts += [st.sampled_from(expo)]
        return st.one_of(*opts)
    if k in ("list", "set", "frozenset", "tuplev"):
        inner = st.one_of(conforming(spec["a"]), conforming(spec["a"]), exact_values(spec["a"]), exact_values(spec["a"]), scalars)
        tags = ["list", "tuple"] + (["set"] if k in ("set", "frozenset") else []) + ["deque", "iter"]
        lst = st.lists(inner, max_size=4)
        return st.one_of(
            st.tuples(lst, st.sampled_from(tags)).map(lambda t: {"t": t[1], "v": t[0]}).filter(_decodable),
            st.tuples(lst, st.sampled_from(tags)).map(lambda t: {"t": t[1], "v": t[0]}).filter(_decodable),
            conforming(spec["a"]), st.sampled_from(["[1, 2]", "1,2", "a,b", "[]", "()"]))
    if k == "tuple":
        n = len(spec["a"])
        exact = st.tuples(*[st.one_of(conforming(a), conforming(a), scalars) for a in spec["a"]]).map(list)
        return st.one_of(
            st.tuples(exact, st.sampled_from(["tuple", "list", "deque"])).map(lambda t: {"t": t[1], "v": t[0]}),
            st.tuples(exact, st.lists(scalars, min_size=1, max_size=2)).map(lambda t: {"t": "tuple", "v": t[0] + t[1]}),
            exact.map(lambda v: {"t": "list", "v": v[:-1]}),
            scalars)
    if k == "dict":
        ks = st.one_of(conforming(spec["key"]), exact_values(spec["key"]), exact_values(spec["key"]), hashable_scalars).filter(_hashable_spec)
        vs = st.one_of(conforming(spec["val"]), exact_values(spec["val"]), exact_values(spec["val"]), scalars)
        return st.one_of(_dict_of(ks, vs), _dict_of(ks, vs), st.sampled_from(['{"a": 1}', '{"1": "2"}', "a=1&b=2", "{}"]), scalars)
    if k == "lit":
        vals = list(spec["v"])
        return st.one_of(st.sampled_from(vals), st.sampled_from(vals).map(lambda v: str(v) if not isinstance(v, str) else v + " "),
                         st.sampled_from(vals).map(lambda v: {"t": "float", "v": repr(float(v))} if isinstance(v, int) and not isinstance(v, bool) else v),
                         scalars)
    if k == "enum":
        e = codec.ENUMS[spec["e"]]
        members = [{"t": "enum", "e": spec["e"], "m": m.name} for m in e]
        raw = [m.value for m in e] + [m.name for m in e] + [str(m.value) for m in e]
        return st.one_of(st.sampled_from(members), st.sampled_from(raw), st.sampled_from(raw).map(_wrap_list), scalars, enums)
    if k == "opt":
        return st.one_of(st.none(), conforming(spec["a"]), conforming(spec["a"]), st.sampled_from(["null", "None", ""]))
    if k in ("union", "xor", "and"):
        return st.one_of(*[conforming(a) for a in spec["a"] if a["k"] != "not"] +
                         [conforming(a["a"]) for a in spec["a"] if a["k"] == "not"] + [scalars])
    if k == "not":
        return st.one_of(conforming(spec["a"]), scalars)
    if k == "data":
        from . import dspec
        return dspec.inputs_for(spec["d"])
    return scalars


def _decodable(vs):
    try:
        codec.decode(vs)
        return True
    except Exception:
        return False


def _hashable_spec(vs):
    try:
        hash(codec.decode(vs))
        return True
    except Exception:
        return False


def _seq_of(elems, tag):
    return st.lists(elems, max_size=4).map(lambda v: {"t": tag, "v": v}).filter(_decodable)


def _dict_of(ks, vs):
    return st.lists(st.tuples(ks, vs).map(list), max_size=4).map(lambda v: {"t": "dict", "v": v}).filter(_decodable)


def boundary_values(spec):
    """values on and next to every declared bound of a constrained spec (ValueSpecs)"""
    import decimal
    out = []
    o = spec.get("o")
    c = spec.get("c", {})
    for name in ("gt", "ge", "lt", "le"):
        if name not in c:
            continue
        b = codec.decode(c[name])
        try:
            if o == "int":
                for d in (-1, 0, 1):
                    out.append(_int_spec(int(b) + d))
                    out.append(str(int(b) + d))
                out.append({"t": "float", "v": repr(float(b))})
                out.append({"t": "float", "v": repr(float(b) + 0.5)})
            elif o == "float":
                fb = float(b)
                for x in (fb, math.nextafter(fb, math.inf), math.nextafter(fb, -math.inf), fb + 1, fb - 1):
                    out.append({"t": "float", "v": repr(x)})
                out.append({"t": "float", "v": "nan"})
                out.append({"t": "float", "v": "inf"})
                out.append({"t": "float", "v": "-inf"})
                if float(b).is_integer():
                    out.append(int(b))
            elif o == "decimal":
                db = decimal.Decimal(b)
                q = decimal.Decimal("0.01")
                for x in (db, db + q, db - q, db + 1, db - 1):
                    out.append({"t": "decimal", "v": str(x)})
                out += [{"t": "decimal", "v": "NaN"}, {"t": "decimal", "v": "Infinity"}, {"t": "decimal", "v": "-Infinity"}]
            elif o == "date":
                for d in (-1, 0, 1):
                    out.append({"t": "date", "v": (b + dt.timedelta(days=d)).isoformat()})
            elif o == "datetime":
                for us in (-1, 0, 1):
                    out.append({"t": "datetime", "v": (b + dt.timedelta(microseconds=us)).isoformat()})
            elif o == "timedelta":
                for us in (-1, 0, 1):
                    x = b + dt.timedelta(microseconds=us)
                    out.append({"t": "timedelta", "v": [x.days, x.seconds, x.microseconds]})
            elif o == "time":
                out += [{"t": "time", "v": "12:00:00"}, {"t": "time", "v": "12:00:00.000001"}, {"t": "time", "v": "11:59:59.999999"}]
        except Exception:
            pass
    lens = set()
    for name in ("length", "max_length", "min_length"):
        if name in c:
            for d in (-1, 0, 1):
                if c[name] + d >= 0:
                    lens.add(c[name] + d)
    for n in sorted(lens):
        if o == "str":
            out += ["a" * n, "1" * n, "é" * n]
        elif o == "bytes":
            out += [{"t": "bytes", "v": "61" * n}, "é" * n]
        elif o in ("list", "tuple"):
            out += [{"t": o, "v": list(range(n))}, {"t": "list", "v": [0] * n}, {"t": "list", "v": [str(i) for i in range(n)]}]
        elif o == "set":
            out += [{"t": "set", "v": list(range(n))}, {"t": "list", "v": list(range(n)) + [0]}]
        elif o == "dict":
            out += [{"t": "dict", "v": [[str(i), i] for i in range(n)]}]
        elif o == "int":
            out += [_int_spec(10 ** n - 1), _int_spec(10 ** max(n - 1, 0)), _int_spec(-(10 ** max(n - 1, 0)))]
        elif o == "float":
            out += [{"t": "float", "v": repr(float(10 ** max(n - 3, 0)))}]
    if "regex" in c:
        import re
        samples = ["123", "12", "1", "12345", "abc", "abc\n", "a", "", "ab", "abab", "aXc", "a\nc", "Abc", "ABC", "bc", "abc ", " abc",
                   "-1.5", "1.", "x@y", "x@y z", "a-b-c", "a--b", "12\n", "12\n\n", "aB", "ABB"]
        out += samples
    if "max_digits" in c or "decimal_places" in c:
        md = c.get("max_digits", 3)
        dp = c.get("decimal_places", 2)
        cands = ["9" * md, "9" * (md + 1), "0." + "9" * dp, "0." + "9" * (dp + 1), "9" * max(md - dp, 1) + "." + "9" * dp,
                 "0.0" + "1" * max(dp - 1, 1), "1E+%d" % md, "1E+%d" % max(md - 1, 0), "1" + "0" * (md - 1) if md > 0 else "1",
                 "-" + "9" * md, "1.50", "1.500", "0.0123", "99.99", "99.995", "0E+2"]
        for s in cands:
            if o == "decimal":
                out.append({"t": "decimal", "v": s})
            elif o == "float":
                try:
                    out.append({"t": "float", "v": repr(float(s))})
                except ValueError:
                    pass
            elif o == "int":
                try:
                    out.append(_int_spec(int(decimal.Decimal(s)))) if decimal.Decimal(s) == int(decimal.Decimal(s)) else None
                except Exception:
                    pass
        if o == "float":
            out += [{"t": "float", "v": "1e16"}, {"t": "float", "v": "1e20"}, {"t": "float", "v": "-2.5e+17"}, {"t": "float", "v": "1e-07"}]
    if "multiple_of" in c:
        m = codec.decode(c["multiple_of"])
        for kq in (-3, -1, 0, 1, 2, 7):
            x = m * kq
            for y in (x, x + (1 if isinstance(m, int) else m / 2)):
                if o == "int" and float(y).is_integer():
                    out.append(_int_spec(int(y)))
                elif o == "float":
                    out.append({"t": "float", "v": repr(float(y))})
                elif o == "decimal":
                    out.append({"t": "decimal", "v": str(decimal.Decimal(str(y)))})
        if isinstance(m, int) and not isinstance(m, bool):
            # beyond what a double holds exactly (divisibility is exact arithmetic): 53+ bits, 17+ digits, beyond the float range
            if o == "int":
                out += [_int_spec(m * 10 ** 20), _int_spec(m * 10 ** 20 + 1), _int_spec(m * (2 ** 53 + 1)), _int_spec(m * 2 ** 53 + 1), _int_spec(m * 10 ** 400)]
            elif o == "decimal":
                out += [{"t": "decimal", "v": str(m * 10 ** 16)}, {"t": "decimal", "v": str(m * 10 ** 16) + ".5"}, {"t": "decimal", "v": str(m * 10 ** 17 + 1)}]
    if "const" in c:
        v = c["const"]
        out += [v, _wrap_list(v)]
        cv = codec.decode(v)
        if isinstance(cv, (int, float, decimal.Decimal)) and not isinstance(cv, bool):
            out += [{"t": "float", "v": repr(float(cv))}, str(cv), {"t": "decimal", "v": str(cv)}]
            if cv in (0, 1):
                out.append(bool(cv))
    if "enum" in c and isinstance(c["enum"], list):
        out += list(c["enum"])
    if "enum" in c and isinstance(c["enum"], dict) and "enumcls" in c["enum"]:
        # member values, members, member names and strangers of an Enum-class range
        e = codec.ENUMS[c["enum"]["enumcls"]]
        out += [codec.encode(m.value) for m in e] + [{"t": "enum", "e": c["enum"]["enumcls"], "m": m.name} for m in e] + [m.name for m in e] + [5, "zz"]
    if c.get("unique_items"):
        out += [{"t": "list", "v": [1, 1]}, {"t": "list", "v": [1, True]}, {"t": "list", "v": [1, {"t": "float", "v": "1.0"}]},
                {"t": "list", "v": [{"t": "float", "v": "nan"}, {"t": "float", "v": "nan"}]}, {"t": "list", "v": [1, 2, 3]},
                {"t": "tuple", "v": ["a", "b", "a"]}, {"t": "list", "v": [{"t": "list", "v": [1]}, {"t": "list", "v": [1]}]},
                # equal unhashable items whose text differs (1 vs 1.0, member order)
                {"t": "list", "v": [{"t": "list", "v": [1, 2]}, {"t": "list", "v": [{"t": "float", "v": "1.0"}, 2]}]},
                {"t": "list", "v": [{"t": "dict", "v": [["a", 1], ["b", 2]]}, {"t": "dict", "v": [["b", 2], ["a", 1]]}]},
                {"t": "tuple", "v": [{"t": "list", "v": [True]}, {"t": "list", "v": [1]}]},
                {"t": "list", "v": [{"t": "dict", "v": [["a", 1]]}, {"t": "dict", "v": [["a", 2]]}]}]
    return [x for x in out if x is not None or True]


# -- well-typed values (C02) -------------------------------------------------------------------------

_WT_TAG = {"int": int, "float": float, "decimal": "decimal", "str": str, "bytes": bytes, "list": list, "tuple": tuple,
           "set": set, "frozenset": frozenset, "dict": dict}


def _exact_type(vs, o):
    import datetime as _dt
    import decimal as _dec
    try:
        v = codec.decode(vs)
    except Exception:
        return False
    want = {"int": int, "float": float, "decimal": _dec.Decimal, "str": str, "bytes": bytes, "list": list,
            "tuple": tuple, "set": set, "frozenset": frozenset, "dict": dict, "date": _dt.date,
            "datetime": _dt.datetime, "time": _dt.time, "timedelta": _dt.timedelta}[o]
    return type(v) is want


def welltyped(spec):
    """ValueSpecs whose decoded value has exactly the source type of a `con` spec, concentrated on
    the declared bounds (boundary_values filtered by type) and mixed with general values of the type."""
    o = spec["o"]
    small = st.one_of(st.integers(-3, 3), st.sampled_from(["a", "b", "", "1"]), st.booleans(), st.none(),
                      st.sampled_from([{"t": "float", "v": "1.0"}, {"t": "float", "v": "nan"}, {"t": "decimal", "v": "1"}]))
    hsmall = st.one_of(st.integers(-3, 3), st.sampled_from(["a", "b", "", "1"]), st.booleans(), st.none(),
                       st.sampled_from([{"t": "float", "v": "1.0"}]))
    base = {
        "int": st.one_of(st.integers(-25, 25), st.integers(-1200, 1200), ints.filter(lambda x: not isinstance(x, bool)),
                         st.integers(0, 7).map(lambda n: 10 ** n), st.integers(0, 7).map(lambda n: 10 ** n - 1),
                         st.integers(0, 7).map(lambda n: -(10 ** n))),
        "float": st.one_of(floats, st.integers(-100, 100).map(lambda i: {"t": "float", "v": repr(i / 4)}),
                           st.integers(-2000, 2000).map(lambda i: {"t": "float", "v": repr(i / 100)}),
                           st.integers(-30, 30).map(lambda i: {"t": "float", "v": repr(float(i))})),
        "decimal": st.one_of(decimals, st.integers(-2000, 2000).map(lambda i: {"t": "decimal", "v": str(i / 100)}),
                             st.tuples(st.integers(-9999, 9999), st.integers(-5, 3)).map(lambda t: {"t": "decimal", "v": f"{t[0]}E{t[1]}"}),
                             st.integers(-30, 30).map(lambda i: {"t": "decimal", "v": str(i)}),
                             st.tuples(st.integers(-30, 30), st.integers(1, 3)).map(lambda t: {"t": "decimal", "v": f"{t[0]}." + "0" * t[1]})),
        "str": st.one_of(strs, st.text(alphabet="ab1-@ \nAB", max_size=6), st.sampled_from(
            ["a", "ab", "abc", "abcd", "abcde", "12", "123", "1234", "12345", "abc\n", "a-b", "Ab", "ABc", "bc", "x@y", "12\n", "a\nc"])),
        "bytes": bytes_,
        "list": st.lists(small, max_size=5).map(lambda v: {"t": "list", "v": v}),
        "tuple": st.lists(small, max_size=5).map(lambda v: {"t": "tuple", "v": v}),
        "set": st.lists(hsmall, max_size=5).map(lambda v: {"t": "set", "v": v}),
        "frozenset": st.lists(hsmall, max_size=5).map(lambda v: {"t": "frozenset", "v": v}),
        "dict": st.lists(st.tuples(st.sampled_from(["a", "b", "c", "d", "e"]), small).map(list), max_size=5,
                         unique_by=lambda p: p[0]).map(lambda v: {"t": "dict", "v": v}),
        "date": st.one_of(dates, st.integers(-2, 2).map(lambda d: {"t": "date", "v": (dt.date(2020, 1, 15) + dt.timedelta(days=d)).isoformat()})),
        "datetime": st.one_of(st.integers(-2, 2).map(lambda us: {"t": "datetime", "v": (dt.datetime(2020, 1, 15, 12) + dt.timedelta(microseconds=us)).isoformat()}),
                              st.datetimes(min_value=dt.datetime(1, 1, 2), max_value=dt.datetime(9999, 12, 30)).map(lambda d: {"t": "datetime", "v": d.isoformat()})),
        "time": st.one_of(times, st.sampled_from(["12:00:00", "12:00:00.000001", "11:59:59.999999"]).map(lambda s: {"t": "time", "v": s})),
        "timedelta": st.one_of(timedeltas, st.integers(-2, 2).map(lambda us: (dt.timedelta(days=1) + dt.timedelta(microseconds=us))).map(
            lambda x: {"t": "timedelta", "v": [x.days, x.seconds, x.microseconds]})),
    }[o]
    extra = [x for x in boundary_values(spec) if _exact_type(x, o)]
    opts = [base]
    if extra:
        opts += [st.sampled_from(extra), st.sampled_from(extra)]
    return st.one_of(*opts).filter(lambda vs: _exact_type(vs, o))


_WT_ORIGINS = ("int", "float", "decimal", "str", "bytes", "list", "tuple", "set", "frozenset", "dict", "date", "datetime", "time", "timedelta")


def exact_values(spec):
    """values that already have exactly the declared type (need no conversion): with them around, a parse of a container
    converts nothing - the shape in which 'return the input unchanged' short-cuts show"""
    k = spec["k"]
    if k == "leaf" and spec["o"] in _WT_ORIGINS:
        return welltyped({"k": "con", "o": spec["o"], "c": {}})
    if k == "leaf":
        return {"bool": st.booleans(), "none": st.none(), "uuid": uuids, "complex": complexes, "bytearray": bytearrays}.get(spec["o"], scalars)
    if k == "con" and spec["o"] in _WT_ORIGINS and not spec.get("args"):
        return welltyped(spec)
    if k == "enum":
        return st.sampled_from([{"t": "enum", "e": spec["e"], "m": m.name} for m in codec.ENUMS[spec["e"]]])
    return conforming(spec)
