import argparse
import os
import sys
import traceback


def main():
    ap = argparse.ArgumentParser(prog="vf")
    ap.add_argument("pid")
    ap.add_argument("--tier", default="quick", choices=["quick", "thorough"])
    ap.add_argument("--replay")
    ap.add_argument("--shard", type=int)
    ap.add_argument("--nshards", type=int, default=1)
    ap.add_argument("--partial")
    a = ap.parse_args()

    # determinism: set iteration order is visible in utype results
    if os.environ.get("PYTHONHASHSEED") != "0":
        env = dict(os.environ, PYTHONHASHSEED="0", PYTHONDONTWRITEBYTECODE="1")
        os.execve(sys.executable, [sys.executable, "-B", "-m", "vf"] + sys.argv[1:], env)

    tier = a.tier
    if a.shard is None and os.environ.get("VERIF_TIER") in ("quick", "thorough"):
        tier = os.environ["VERIF_TIER"]
    try:
        seed = int(os.environ.get("VERIF_SEED", "1"))
    except ValueError:
        seed = 1

    from . import core
    try:
        if a.replay:
            rc = core.main_replay(a.pid, a.replay)
        elif a.shard is not None:
            rc = core.run_shard(a.pid, tier, seed, a.shard, a.nshards, a.partial)
        else:
            rc = core.main_check(a.pid, tier, seed)
    except BaseException:  # harness errors never look like a verdict
        traceback.print_exc()
        print("HARNESS-ERROR (exit 2)")
        rc = 2
    sys.stdout.flush()
    os._exit(rc)


main()
